"""R-UNORDERED: unordered-iteration taint.  R-IMPURE, R-GLOBALSTATE: determinism inventory.

Types: U  = set/frozenset-typed value
       DU = dict (or its views) whose insertion order derives from iterating a U
       DoU = dict whose *values* are U (subscript gives U)
Every consumption of a U/DU value in an order-sensitive way (iteration with an
order-sensitive body, list()/tuple()/join()/str()/enumerate()/zip()/next(iter())/pop())
is an instance; it must be sanitised (sorted/min/max/sum/len/any/all/set/frozenset,
membership, set algebra, equality), have an order-insensitive body, or be tabled.
"""
from __future__ import annotations

import ast

from ..pyfacts import Func, Repo, call_name, dotted_name, walk_no_nested_funcs
from ..report import AnalysisError, RuleResult

SANITISERS = {"sorted", "min", "max", "sum", "len", "any", "all", "set", "frozenset", "bool"}
SET_METHODS_U = {"union", "intersection", "difference", "symmetric_difference", "copy"}
INSENSITIVE_METHODS = {"add", "update", "discard", "setdefault", "difference_update", "intersection_update"}
ORDER_SINK_FUNCS = {"list", "tuple", "enumerate", "zip", "iter", "next", "str", "repr", "reversed"}


def _total_key(key, m=None, depth=0):
    """Keys under which distinct hashable elements cannot tie: the element itself in some canonical form.  `m`: the
    module, to resolve key functions defined in it (a function whose every return is a tuple that contains its own
    parameter is injective; a function returning `sorted(param, key=<total>)` is a canonical listing of a set)."""
    if depth > 3:
        return False
    if isinstance(key, ast.Name) and key.id in ("sorted", "str", "repr", "tuple", "list"):
        return True
    if isinstance(key, ast.Attribute) and key.attr in ("hashable_form_of_reference", "hashable_form_of_field_reference"):
        return True
    mfuncs = {f.name: f for f in m.top_funcs()} if m is not None else {}

    def injective_fn(name):
        f = mfuncs.get(name)
        if f is None or len(f.node.args.args) != 1:
            return False
        p = f.node.args.args[0].arg
        rets = [r for r in walk_no_nested_funcs(f.node) if isinstance(r, ast.Return)]
        if not rets:
            return False
        for r in rets:
            v = r.value
            if isinstance(v, ast.Tuple) and any(isinstance(x, ast.Name) and x.id == p for x in v.elts):
                continue
            return False
        return True

    def listing_fn(name):
        """f(s) = sorted(s, key=<total>) or sorted(s)"""
        if name == "sorted":
            return True
        f = mfuncs.get(name)
        if f is None or len(f.node.args.args) != 1:
            return False
        p = f.node.args.args[0].arg
        rets = [r for r in walk_no_nested_funcs(f.node) if isinstance(r, ast.Return)]
        if len(rets) != 1:
            return False
        v = rets[0].value
        if not (isinstance(v, ast.Call) and call_name(v) == "sorted" and v.args and isinstance(v.args[0], ast.Name) and v.args[0].id == p):
            return False
        k = next((kw.value for kw in v.keywords if kw.arg == "key"), None)
        return k is None or _total_key(k, m, depth + 1)
    if isinstance(key, ast.Name) and injective_fn(key.id):
        return True
    if isinstance(key, ast.Lambda) and len(key.args.args) == 1:
        p = key.args.args[0].arg
        b = key.body
        parts = b.elts if isinstance(b, ast.Tuple) else [b]
        for x in parts:
            if isinstance(x, ast.Name) and x.id == p:
                return True
            if isinstance(x, ast.Call) and isinstance(x.func, ast.Name) and x.func.id in ("sorted", "str", "repr", "tuple", "list") \
                    and x.args and isinstance(x.args[0], ast.Name) and x.args[0].id == p:
                return True
            # [g(e) for e in listing(p)] with g injective: a canonical list of injective images
            if isinstance(x, ast.ListComp) and len(x.generators) == 1 and not x.generators[0].ifs:
                g = x.generators[0]
                if isinstance(g.target, ast.Name) and isinstance(g.iter, ast.Call) and isinstance(g.iter.func, ast.Name) \
                        and listing_fn(g.iter.func.id) and len(g.iter.args) == 1 and isinstance(g.iter.args[0], ast.Name) \
                        and g.iter.args[0].id == p and not g.iter.keywords:
                    e = x.elt
                    if isinstance(e, ast.Name) and e.id == g.target.id:
                        return True
                    if isinstance(e, ast.Call) and isinstance(e.func, ast.Name) and injective_fn(e.func.id) and len(e.args) == 1 \
                            and isinstance(e.args[0], ast.Name) and e.args[0].id == g.target.id:
                        return True
    return False


class Env:
    def __init__(self):
        self.names = {}  # name -> type

    def get(self, n):
        return self.names.get(n)


class Analyzer:
    def __init__(self, repo: Repo, modules=None):
        self.repo = repo
        self.modules = modules or repo.compile_path_modules()
        self.attr_types = {}  # attribute name -> type ("U"/"DU"/"DoU") if all assignments agree
        self.func_ret = {}  # fq -> type
        self.global_types = {}  # (module name, global name) -> type
        self.namedtuples = {}  # (module, name) -> [fields]
        self.func_ret_tuple = {}  # fq -> [types]
        self.param_types = {}  # (fq, param name) -> type
        self.instances = []  # (module, func, node, kind, status, detail)
        self._collect_namedtuples()
        for _ in range(3):
            self._collect_summaries()

    # ---- summaries -----------------------------------------------------------------
    def _collect_namedtuples(self):
        for m in self.modules:
            for name, vals in m.assigns.items():
                v = vals[-1]
                if isinstance(v, ast.Call) and (call_name(v) or "").endswith("namedtuple") and len(v.args) >= 2:
                    flds = v.args[1]
                    names = None
                    if isinstance(flds, (ast.List, ast.Tuple)):
                        names = [e.value for e in flds.elts if isinstance(e, ast.Constant)]
                    elif isinstance(flds, ast.Constant) and isinstance(flds.value, str):
                        names = flds.value.replace(",", " ").split()
                    if names:
                        self.namedtuples[(m.name, name)] = names

    def _collect_summaries(self):
        attr_assign = {}
        param_seen = {}
        for m in self.modules:
            # module-level globals
            genv = self._env_for_body(m, None, m.tree.body)
            for n, t in genv.names.items():
                self.global_types[(m.name, n)] = t
            for f in m.funcs.values():
                env = self._env_for_func(m, f)
                # attribute assignments  obj.attr = <expr>
                for n in walk_no_nested_funcs(f.node):
                    if isinstance(n, ast.Assign):
                        for t in n.targets:
                            if isinstance(t, ast.Attribute):
                                ty = self.expr_type(m, f, env, n.value)
                                attr_assign.setdefault(t.attr, []).append(ty)
                    # namedtuple construction with U-typed positional args
                    if isinstance(n, ast.Call):
                        r = self.repo.resolve(m, n.func, f)
                        if isinstance(r, tuple) and r[0] == "value" and (r[1].name, r[2]) in self.namedtuples:
                            flds = self.namedtuples[(r[1].name, r[2])]
                            for i, a in enumerate(n.args):
                                ty = self.expr_type(m, f, env, a)
                                if ty and i < len(flds):
                                    attr_assign.setdefault(flds[i], []).append(ty)
                            for k in n.keywords:
                                ty = self.expr_type(m, f, env, k.value)
                                if ty and k.arg:
                                    attr_assign.setdefault(k.arg, []).append(ty)
                # subscript stores  obj.attr[k] = <U>  /  obj.attr.append(<U>)
                for n in walk_no_nested_funcs(f.node):
                    if isinstance(n, ast.Assign):
                        for t in n.targets:
                            if isinstance(t, ast.Subscript) and isinstance(t.value, ast.Attribute):
                                if self.expr_type(m, f, env, n.value) == "U":
                                    attr_assign.setdefault(t.value.attr, []).append("DoU")
                # parameter types from call sites
                for n in walk_no_nested_funcs(f.node):
                    if isinstance(n, ast.Call):
                        r = self.repo.resolve(m, n.func, f)
                        if isinstance(r, Func):
                            pos = [a.arg for a in r.node.args.args]
                            if pos and pos[0] in ("self", "cls") and isinstance(n.func, ast.Attribute):
                                pos = pos[1:]
                            for name, a in zip(pos, n.args):
                                ty = self.expr_type(m, f, env, a)
                                param_seen.setdefault((r.fq, name), []).append(ty)
                # return summary
                rets = [n for n in walk_no_nested_funcs(f.node) if isinstance(n, ast.Return) and n.value is not None]
                if rets and all(isinstance(r.value, ast.Tuple) for r in rets):
                    width = len(rets[0].value.elts)
                    if all(len(r.value.elts) == width for r in rets):
                        tys = []
                        for i in range(width):
                            ts = {self.expr_type(m, f, env, r.value.elts[i]) for r in rets}
                            tys.append(ts.pop() if len(ts) == 1 else None)
                        if any(tys):
                            self.func_ret_tuple[f.fq] = tys
                if rets:
                    tys = {self.expr_type(m, f, env, r.value) for r in rets}
                    if len(tys) == 1 and None not in tys:
                        self.func_ret[f.fq] = tys.pop()
        for key, tys in param_seen.items():
            if tys and all(t == tys[0] and t for t in tys):
                self.param_types[key] = tys[0]
        for a, tys in attr_assign.items():
            s = {t for t in tys if t}
            if s and len(s) == 1 and all(tys):
                self.attr_types[a] = s.pop()
            elif s and len(s) == 1:
                # some assignments untyped (e.g. None defaults): still treat as typed when the
                # untyped ones are constants
                self.attr_types.setdefault(a, next(iter(s)))

    # ---- environments --------------------------------------------------------------
    def _env_for_func(self, m, f):
        env = Env()
        # module globals visible
        for (mn, n), t in self.global_types.items():
            if mn == m.name:
                env.names[n] = t
        for a in f.node.args.args + f.node.args.kwonlyargs:
            t = self.param_types.get((f.fq, a.arg))
            if t:
                env.names[a.arg] = t
        return self._env_for_body(m, f, f.node.body, env)

    def _env_for_body(self, m, f, body, env=None):
        env = env or Env()
        for _ in range(3):
            for n in self._walk(body):
                if isinstance(n, ast.Assign):
                    ty = self.expr_type(m, f, env, n.value)
                    for t in n.targets:
                        if isinstance(t, ast.Name) and ty:
                            env.names[t.id] = ty
                        elif isinstance(t, ast.Subscript) and isinstance(t.value, ast.Name) and ty == "U":
                            if env.names.get(t.value.id) in (None, "DU"):
                                env.names[t.value.id] = "DoU"
                        elif isinstance(t, ast.Tuple) and isinstance(n.value, ast.Call):
                            r = self.repo.resolve(m, n.value.func, f)
                            if isinstance(r, Func) and r.fq in self.func_ret_tuple:
                                for e, ety in zip(t.elts, self.func_ret_tuple[r.fq]):
                                    if isinstance(e, ast.Name) and ety:
                                        env.names[e.id] = ety
                elif isinstance(n, ast.Expr) and isinstance(n.value, ast.Call) and isinstance(n.value.func, ast.Attribute) \
                        and n.value.func.attr == "append" and isinstance(n.value.func.value, ast.Name) and n.value.args:
                    if self.expr_type(m, f, env, n.value.args[0]) == "U" and env.names.get(n.value.func.value.id) is None:
                        env.names[n.value.func.value.id] = "LoU"
                elif isinstance(n, ast.AugAssign) and isinstance(n.target, ast.Name):
                    ty = self.expr_type(m, f, env, n.value)
                    if isinstance(n.op, (ast.BitOr, ast.BitAnd, ast.Sub)) and ty == "U":
                        env.names.setdefault(n.target.id, "U")
                elif isinstance(n, ast.For):
                    ity = self.expr_type(m, f, env, n.iter)
                    if ity == "LoU" and isinstance(n.target, ast.Name):
                        env.names[n.target.id] = "U"
                    if ity in ("U", "DU"):
                        # keyed stores in the body turn the target dict into DU
                        for c in self._walk(n.body):
                            if isinstance(c, ast.Assign):
                                for t in c.targets:
                                    if isinstance(t, ast.Subscript) and isinstance(t.value, ast.Name):
                                        if env.names.get(t.value.id) is None:
                                            env.names[t.value.id] = "DU"
                    # loop variables over DoU.values() are U
                    if isinstance(n.iter, ast.Call) and isinstance(n.iter.func, ast.Attribute) \
                            and n.iter.func.attr in ("values", "items"):
                        bty = self.expr_type(m, f, env, n.iter.func.value)
                        if bty == "DoU":
                            tgt = n.target
                            if n.iter.func.attr == "values" and isinstance(tgt, ast.Name):
                                env.names[tgt.id] = "U"
                            elif isinstance(tgt, ast.Tuple) and len(tgt.elts) == 2 and isinstance(tgt.elts[1], ast.Name):
                                env.names[tgt.elts[1].id] = "U"
        return env

    @staticmethod
    def _walk(body):
        for st in body:
            yield from walk_no_nested_funcs(st) if not isinstance(st, (ast.FunctionDef, ast.ClassDef, ast.AsyncFunctionDef)) else ()

    # ---- typing -------------------------------------------------------------------
    def expr_type(self, m, f, env, e):
        if e is None:
            return None
        if isinstance(e, (ast.Set, ast.SetComp)):
            return "U"
        if isinstance(e, ast.Call):
            cn = call_name(e) or ""
            base = cn.split(".")[-1]
            if cn in ("set", "frozenset"):
                return "U"
            if cn == "sorted" and e.args:
                # sorted(U, key=K) is ordered only if K orders the elements totally; with a key such as `len`, elements
                # that compare equal keep the set's own (hash) order, because sorted() is stable
                key = next((k.value for k in e.keywords if k.arg == "key"), None)
                if key is not None and self.expr_type(m, f, env, e.args[0]) in ("U", "DU") and not _total_key(key, m):
                    return "U"
                return None
            if base == "defaultdict" and e.args and isinstance(e.args[0], ast.Name) and e.args[0].id in ("set", "frozenset"):
                return "DoU"
            if isinstance(e.func, ast.Attribute):
                bty = self.expr_type(m, f, env, e.func.value)
                if bty == "U" and e.func.attr in SET_METHODS_U:
                    return "U"
                if bty == "DU" and e.func.attr in ("keys", "values", "items", "copy"):
                    return "DU"
                if bty == "DoU" and e.func.attr in ("get", "setdefault", "pop"):
                    return "U"
                if bty == "DoU" and e.func.attr in ("keys", "values", "items", "copy"):
                    return None
            r = self.repo.resolve(m, e.func, f)
            if isinstance(r, Func) and r.fq in self.func_ret:
                return self.func_ret[r.fq]
            if cn == "dict" and e.args:
                return "DU" if self.expr_type(m, f, env, e.args[0]) == "DU" else None
            return None
        if isinstance(e, ast.BinOp) and isinstance(e.op, (ast.BitOr, ast.BitAnd, ast.Sub, ast.BitXor)):
            if self.expr_type(m, f, env, e.left) == "U" or self.expr_type(m, f, env, e.right) == "U":
                return "U"
            return None
        if isinstance(e, ast.Name):
            t = env.get(e.id)
            if t:
                return t
            r = self.repo.resolve(m, e, f)
            if isinstance(r, tuple) and r[0] == "value":
                return self.global_types.get((r[1].name, r[2]))
            return None
        if isinstance(e, ast.Attribute):
            r = self.repo.resolve(m, e, f)
            if isinstance(r, tuple) and r[0] == "value":
                return self.global_types.get((r[1].name, r[2]))
            return self.attr_types.get(e.attr)
        if isinstance(e, ast.Subscript):
            bty = self.expr_type(m, f, env, e.value)
            if bty in ("DoU", "LoU"):
                return "U"
            return None
        if isinstance(e, ast.List):
            if e.elts and all(self.expr_type(m, f, env, x) == "U" for x in e.elts):
                return "LoU"
            return None
        if isinstance(e, ast.IfExp):
            return self.expr_type(m, f, env, e.body) or self.expr_type(m, f, env, e.orelse)
        if isinstance(e, ast.DictComp):
            for g in e.generators:
                if self.expr_type(m, f, env, g.iter) in ("U", "DU"):
                    return "DU"
            if self.expr_type(m, f, env, e.value) == "U":
                return "DoU"
            return None
        if isinstance(e, ast.Dict):
            if e.values and all(self.expr_type(m, f, env, v) == "U" for v in e.values):
                return "DoU"
            return None
        return None

    # ---- sinks ----------------------------------------------------------------------
    def body_is_order_insensitive(self, m, f, env, body, loopvars):
        """True when executing the body for elements in any order gives the same state."""
        for st in body:
            if not self._stmt_insensitive(m, f, env, st, loopvars):
                return False
        return True

    def _stmt_insensitive(self, m, f, env, st, loopvars):
        if isinstance(st, (ast.Pass, ast.Continue, ast.Assert)):
            return True
        if isinstance(st, ast.Expr):
            v = st.value
            if isinstance(v, ast.Constant):
                return True
            if isinstance(v, ast.Call) and isinstance(v.func, ast.Attribute) and v.func.attr in INSENSITIVE_METHODS:
                return True
            return False
        if isinstance(st, ast.Assign):
            for t in st.targets:
                if isinstance(t, ast.Subscript):
                    continue  # keyed store
                if isinstance(t, ast.Name):
                    # a local temporary derived from the loop variable is fine when only used
                    # inside this iteration; assignments to names read after the loop are not
                    continue
                return False
            # the value must not itself consume an unordered value in order
            return True
        if isinstance(st, ast.AugAssign):
            if isinstance(st.op, (ast.BitOr, ast.BitAnd)):
                return True
            if isinstance(st.op, ast.Add) and isinstance(st.value, ast.Constant) and isinstance(st.value.value, int):
                return True
            return False
        if isinstance(st, ast.If):
            return self.body_is_order_insensitive(m, f, env, st.body, loopvars) and \
                self.body_is_order_insensitive(m, f, env, st.orelse, loopvars)
        if isinstance(st, ast.For):
            return self.body_is_order_insensitive(m, f, env, st.body, loopvars) and not st.orelse
        return False

    def _sanitised(self, m, node):
        """Is the consuming construct `node` directly wrapped by a sanitiser?"""
        p = m.parent(node)
        # generator/listcomp inside sanitiser call
        if isinstance(p, ast.Call) and node in p.args:
            cn = call_name(p) or ""
            if cn in SANITISERS:
                return True
        return False

    def analyse(self):
        for m in self.modules:
            scopes = [(None, m.tree.body)] + [(f, f.node.body) for f in m.funcs.values()]
            for f, body in scopes:
                env = self._env_for_func(m, f) if f else self._env_for_body(m, None, body)
                for n in self._walk(body):
                    self._visit(m, f, env, n)
        return self.instances

    def _record(self, m, f, node, kind, status, detail):
        self.instances.append((m, f, node, kind, status, detail))

    def _visit(self, m, f, env, n):
        if isinstance(n, ast.For):
            ty = self.expr_type(m, f, env, n.iter)
            if ty in ("U", "DU"):
                lv = {x.id for x in ast.walk(n.target) if isinstance(x, ast.Name)}
                if self.body_is_order_insensitive(m, f, env, n.body, lv) and not n.orelse:
                    self._record(m, f, n, "for", "auto", f"for over {ty} `{ast.unparse(n.iter)[:50]}`: order-insensitive body")
                else:
                    self._record(m, f, n, "for", "sink", f"for over {ty} `{ast.unparse(n.iter)[:50]}` with an order-sensitive body")
        elif isinstance(n, (ast.ListComp, ast.GeneratorExp, ast.DictComp)):
            for g in n.generators:
                ty = self.expr_type(m, f, env, g.iter)
                if ty in ("U", "DU"):
                    if isinstance(n, ast.DictComp):
                        self._record(m, f, n, "dictcomp", "auto", f"dict comprehension over {ty}: keyed stores")
                    elif self._sanitised(m, n):
                        self._record(m, f, n, "comp", "auto", f"comprehension over {ty} inside a sanitiser")
                    else:
                        self._record(m, f, n, "comp", "sink", f"comprehension over {ty} `{ast.unparse(g.iter)[:50]}` produces an ordered sequence")
        elif isinstance(n, ast.Call):
            cn = call_name(n) or ""
            base = cn.split(".")[-1]
            if cn in ORDER_SINK_FUNCS and n.args:
                ty = self.expr_type(m, f, env, n.args[0])
                if ty in ("U", "DU"):
                    if self._sanitised(m, n):
                        self._record(m, f, n, cn, "auto", f"{cn}({ty}) inside a sanitiser")
                    else:
                        self._record(m, f, n, cn, "sink", f"{cn}() of {ty} `{ast.unparse(n.args[0])[:50]}`")
            if isinstance(n.func, ast.Attribute) and n.func.attr == "join" and n.args:
                ty = self.expr_type(m, f, env, n.args[0])
                if ty in ("U", "DU"):
                    self._record(m, f, n, "join", "sink", f"join() over {ty} `{ast.unparse(n.args[0])[:50]}`")
            if isinstance(n.func, ast.Attribute) and n.func.attr == "pop" and not n.args:
                if self.expr_type(m, f, env, n.func.value) == "U":
                    self._record(m, f, n, "pop", "sink", f"set.pop() on `{ast.unparse(n.func.value)[:40]}`")
            if isinstance(n.func, ast.Attribute) and n.func.attr == "format":
                for a in list(n.args) + [k.value for k in n.keywords]:
                    if self.expr_type(m, f, env, a) in ("U", "DU"):
                        self._record(m, f, n, "format", "sink", f"format() of unordered `{ast.unparse(a)[:40]}`")
            if isinstance(n.func, ast.Attribute) and n.func.attr in ("extend",) and n.args:
                if self.expr_type(m, f, env, n.args[0]) in ("U", "DU"):
                    self._record(m, f, n, "extend", "sink", f"list.extend() of unordered `{ast.unparse(n.args[0])[:40]}`")
        elif isinstance(n, ast.JoinedStr):
            for v in n.values:
                if isinstance(v, ast.FormattedValue) and self.expr_type(m, f, env, v.value) in ("U", "DU"):
                    self._record(m, f, n, "fstring", "sink", f"f-string renders unordered `{ast.unparse(v.value)[:40]}`")


# ---- exceptions (each names one construct and carries a reason) ---------------------------
def _w_productions_consumers_sorted(repo):
    """Every consumer of module_ir.PRODUCTIONS / _handlers on the compile path sorts it, turns it
    into a set, copies it key by key, or is the developer-only production checker."""
    ok = True
    for m in repo.compile_path_modules():
        for n in ast.walk(m.tree):
            if isinstance(n, ast.Attribute) and n.attr == "PRODUCTIONS" and isinstance(n.ctx, ast.Load):
                p = m.parent(n)
                f = m.enclosing_func(n)
                if isinstance(p, ast.Call) and (call_name(p) or "") in ("sorted", "set", "frozenset"):
                    continue
                if isinstance(p, ast.Compare):
                    continue
                if f is not None and f.name == "_check_productions":
                    continue
                ok = False
    return ok


EXCEPTIONS = {
    ("compiler/back_end/cpp/header_generator.py", "_render_builtin_operation", "list", "enum_types"): (
        "dominated by `len(enum_types) == 1`: a one-element set has one order", None),
    ("compiler/front_end/lr1.py", "Grammar._closure_of_item", "for", "self._single_level_closure_of_item_cache[item]"): (
        "work-list order only changes which memo entries are created first; the returned value is a set", None),
    ("compiler/front_end/module_ir.py", "_finalize_grammar", "for", "star_symbols"): (
        "seeds the production dict in hash order; every consumer sorts / sets / copies by key", _w_productions_consumers_sorted),
    ("compiler/front_end/module_ir.py", "_finalize_grammar", "for", "plus_symbols"): (
        "seeds the production dict in hash order; every consumer sorts / sets / copies by key", _w_productions_consumers_sorted),
    ("compiler/front_end/module_ir.py", "_finalize_grammar", "for", "option_symbols"): (
        "seeds the production dict in hash order; every consumer sorts / sets / copies by key", _w_productions_consumers_sorted),
    ("compiler/util/traverse_ir.py", "_FunctionCaller.invoke", "fstring", "missing_args"): (
        "text of an internal assertion failure (compiler bug path), never part of compiler output", None),
    ("compiler/util/traverse_ir.py", "_FunctionCaller.invoke", "fstring", "set(keyword_args.keys())"): (
        "text of an internal assertion failure (compiler bug path), never part of compiler output", None),
    ("compiler/front_end/make_parser.py", "generate_parser", "comp", "parser.conflicts"): (
        "developer-only failure while building a parser from a conflicting grammar", None),
}


def _subject(node, kind):
    if isinstance(node, ast.For):
        return ast.unparse(node.iter)
    if isinstance(node, (ast.ListComp, ast.GeneratorExp, ast.DictComp)):
        return ast.unparse(node.generators[0].iter)
    if isinstance(node, ast.Call):
        if kind == "pop":
            return ast.unparse(node.func.value)
        if kind == "format":
            return ast.unparse(node)[:60]
        return ast.unparse(node.args[0]) if node.args else ast.unparse(node)
    return ast.unparse(node)[:60]


def unordered(repo, modules=None):
    res = RuleResult("R-UNORDERED")
    an = Analyzer(repo, modules)
    seen = set()
    for m, f, node, kind, status, detail in an.analyse():
        fn = f.qualname if f else "<module>"
        subj = _subject(node, kind)
        if kind == "fstring":
            # one instance per rendered unordered value
            subj = detail.split("`")[1] if "`" in detail else subj
        key = (m.rel, fn, kind, subj)
        if key in seen:
            continue
        seen.add(key)
        res.instances += 1
        res.analysed.append(f"{m.rel}:{fn}")
        if status == "auto":
            if len(res.samples) < 2:
                res.samples.append({"site": f"{m.rel}:{node.lineno}", "status": "order-insensitive", "detail": detail})
            continue
        ex = EXCEPTIONS.get(key)
        if ex is not None and (ex[1] is None or ex[1](repo)):
            res.notes.append(f"{m.rel}:{node.lineno} {fn}: tabled exception — {ex[0]}")
            continue
        extra = f" (tabled exception no longer holds: {ex[0]})" if ex else ""
        res.add(f"{m.rel}|{fn}|{kind}|{subj}",
                f"{detail}: the result depends on set iteration order, i.e. on PYTHONHASHSEED{extra}",
                m.rel, node.lineno, fn)
    res.detail = {"U_attributes": sorted(an.attr_types), "U_functions": sorted(k.rsplit('.', 1)[-1] for k in an.func_ret),
                  "U_globals": len(an.global_types)}
    return res


IMPURE_PREFIXES = ("time.", "random.", "uuid.", "datetime.", "secrets.", "os.getpid", "os.urandom",
                   "os.environ", "os.getenv", "os.times", "socket.", "getpass.", "platform.")
IMPURE_BUILTINS = {"id", "hash"}


def impure(repo, modules=None):
    """No clock/random/pid/environment/identity input on the compile path."""
    res = RuleResult("R-IMPURE")
    for m in (modules or repo.compile_path_modules()):
        res.instances += 1
        res.analysed.append(m.rel)
        for n in ast.walk(m.tree):
            if isinstance(n, ast.Attribute):
                dn = dotted_name(n) or ""
                top = dn.split(".")[0]
                if any(dn.startswith(p) or dn + "." == p for p in IMPURE_PREFIXES) and m.imports.get(top, top) == top:
                    if top in m.imports or top in ("os",):
                        f = m.enclosing_func(n)
                        res.add(f"{m.rel}|{f.qualname if f else '<module>'}|{dn}",
                                f"use of {dn}: compilation output may depend on time/environment/process identity",
                                m.rel, n.lineno, f.qualname if f else "")
            if isinstance(n, ast.Call) and isinstance(n.func, ast.Name) and n.func.id in IMPURE_BUILTINS \
                    and n.func.id not in m.funcs and n.func.id not in m.assigns:
                # identity used only as a membership key (`id(x) in seen`, `seen.add(id(x))`) never reaches the output:
                # whether an object was seen before does not depend on the numeric value of its id
                par = m.parent(n)
                if n.func.id == "id" and (
                        (isinstance(par, ast.Compare) and par.left is n and len(par.ops) == 1 and isinstance(par.ops[0], (ast.In, ast.NotIn)))
                        or (isinstance(par, ast.Call) and isinstance(par.func, ast.Attribute) and par.func.attr in ("add", "discard")
                            and par.args == [n])):
                    continue
                f = m.enclosing_func(n)
                res.add(f"{m.rel}|{f.qualname if f else '<module>'}|{n.func.id}()",
                        f"{n.func.id}() depends on object identity / the hash seed", m.rel, n.lineno,
                        f.qualname if f else "")
    return res


# ---- R-GLOBALSTATE ---------------------------------------------------------------------
MUTATORS = {"append", "extend", "insert", "add", "update", "setdefault", "pop", "clear", "remove", "discard", "popitem"}

GLOBAL_STATE_OK = {
    # (module rel, name): reason
    ("compiler/front_end/glue.py", "_cached_modules"): "memo keyed by (source_code, file_name); hands out copies (checked below)",
    ("compiler/front_end/module_ir.py", "_anonymous_name_counter"): "numbering of reserved anonymous names; read only by the name generator (checked below)",
    ("compiler/front_end/module_ir.py", "_handlers"): "import-time registration through @_handles (decorator)",
    ("compiler/front_end/format_emb.py", "_formatters"): "import-time registration through @_formats (decorator)",
    ("compiler/front_end/constraints.py", "_RESERVED_WORDS"): "lazy load of a resource file; value depends only on the file",
    ("compiler/util/name_conversion.py", "_case_conversions"): "import-time registration through @_case_conversion (decorator)",
    ("compiler/util/simple_memoizer.py", "memoize.cache"): "memoisation idiom: key -> f(key)",
    ("compiler/util/ir_data_fields.py", "IrDataclassSpecs.spec_cache"): "memo of dataclass specs keyed by class",
}


def globalstate(repo, modules=None):
    res = RuleResult("R-GLOBALSTATE")
    found = {}
    for m in (modules or repo.compile_path_modules()):
        mutable_globals = set()
        for name, vals in m.assigns.items():
            v = vals[-1]
            if isinstance(v, (ast.Dict, ast.List, ast.Set, ast.DictComp, ast.ListComp, ast.SetComp)) or \
                    (isinstance(v, ast.Call) and (call_name(v) or "").split(".")[-1] in ("dict", "list", "set", "defaultdict", "OrderedDict")):
                mutable_globals.add(name)
        for f in m.funcs.values():
            local_names = {a.arg for a in f.node.args.args + f.node.args.kwonlyargs}
            declared_global = set()
            for n in walk_no_nested_funcs(f.node):
                if isinstance(n, ast.Global):
                    declared_global |= set(n.names)
            assigned_local = set()
            for n in walk_no_nested_funcs(f.node):
                if isinstance(n, (ast.Assign, ast.AugAssign, ast.AnnAssign, ast.For, ast.With, ast.NamedExpr)):
                    tgts = getattr(n, "targets", None) or [getattr(n, "target", None)]
                    for t in tgts:
                        for x in ast.walk(t) if t is not None else ():
                            if isinstance(x, ast.Name) and isinstance(x.ctx, ast.Store):
                                assigned_local.add(x.id)
            shadow = (local_names | assigned_local) - declared_global
            for g in declared_global:
                found.setdefault((m.rel, g), []).append((f, f.node.lineno, "global statement"))
            for n in walk_no_nested_funcs(f.node):
                tgt = None
                how = None
                if isinstance(n, ast.Call) and isinstance(n.func, ast.Attribute) and n.func.attr in MUTATORS \
                        and isinstance(n.func.value, ast.Name):
                    tgt, how = n.func.value.id, f".{n.func.attr}()"
                elif isinstance(n, (ast.Assign, ast.AugAssign)):
                    for t in (n.targets if isinstance(n, ast.Assign) else [n.target]):
                        if isinstance(t, ast.Subscript) and isinstance(t.value, ast.Name):
                            tgt, how = t.value.id, "[...] ="
                elif isinstance(n, ast.Delete):
                    for t in n.targets:
                        if isinstance(t, ast.Subscript) and isinstance(t.value, ast.Name):
                            tgt, how = t.value.id, "del [...]"
                if tgt and tgt in mutable_globals and tgt not in shadow:
                    found.setdefault((m.rel, tgt), []).append((f, n.lineno, how))
            # closure caches: a nested function mutating a dict of its enclosing function
            if f.parent is not None:
                enclosing_mut = set()
                for n in walk_no_nested_funcs(f.parent.node):
                    if isinstance(n, ast.Assign) and len(n.targets) == 1 and isinstance(n.targets[0], ast.Name) \
                            and isinstance(n.value, (ast.Dict, ast.List, ast.Set)):
                        enclosing_mut.add(n.targets[0].id)
                for n in walk_no_nested_funcs(f.node):
                    if isinstance(n, ast.Assign):
                        for t in n.targets:
                            if isinstance(t, ast.Subscript) and isinstance(t.value, ast.Name) and t.value.id in enclosing_mut \
                                    and t.value.id not in shadow:
                                # only decorator-style closures survive the call (returned inner function)
                                returns_inner = any(isinstance(r, ast.Return) and isinstance(r.value, ast.Name) and r.value.id == f.name
                                                    for r in walk_no_nested_funcs(f.parent.node))
                                if returns_inner:
                                    found.setdefault((m.rel, f"{f.parent.qualname}.{t.value.id}"), []).append((f, n.lineno, "closure cache"))
        # class-level mutable attributes mutated through cls.
        for cname, cnode in m.classes.items():
            for st in cnode.body:
                if isinstance(st, (ast.Assign, ast.AnnAssign)):
                    t = st.targets[0] if isinstance(st, ast.Assign) else st.target
                    v = st.value
                    if isinstance(t, ast.Name) and isinstance(v, (ast.Dict, ast.List, ast.Set)):
                        for f in m.funcs.values():
                            if f.cls == cname:
                                for n in walk_no_nested_funcs(f.node):
                                    if isinstance(n, ast.Call) and isinstance(n.func, ast.Attribute) and n.func.attr in MUTATORS \
                                            and isinstance(n.func.value, ast.Attribute) and n.func.value.attr == t.id \
                                            and isinstance(n.func.value.value, ast.Name) and n.func.value.value.id in ("cls", cname):
                                        found.setdefault((m.rel, f"{cname}.{t.id}"), []).append((f, n.lineno, "class attribute"))
    for key, sites in sorted(found.items()):
        res.instances += 1
        if key in GLOBAL_STATE_OK:
            res.notes.append(f"{key[0]}:{key[1]} — {GLOBAL_STATE_OK[key]}")
            continue
        f, line, how = sites[0]
        res.add(f"{key[0]}|{key[1]}", f"module-level state `{key[1]}` is written at call time ({how} in {f.qualname}): "
                "output may depend on what was compiled earlier in the process", key[0], line, f.qualname)
    res.samples = [f"{k[0]}:{k[1]}" for k in sorted(found)][:4]
    res.detail["inventory"] = [f"{k[0]}:{k[1]}" for k in sorted(found)]
    # specific disciplines
    glue = repo.mod("compiler/front_end/glue.py")
    res.instances += 2
    for n in ast.walk(glue.tree):
        if isinstance(n, ast.Subscript) and isinstance(n.value, ast.Name) and n.value.id == "_cached_modules":
            idx = n.slice
            if not (isinstance(idx, ast.Tuple) and [ast.unparse(e) for e in idx.elts] == ["source_code", "file_name"]):
                res.add("glue|_cached_modules|key", "_cached_modules is not keyed by (source_code, file_name): a cached "
                        "parse could be returned for different text", glue.rel, n.lineno)
            if isinstance(n.ctx, ast.Load):
                # the value read from the cache must be copied before being handed out
                f = glue.enclosing_func(n)
                src = glue.seg(f.node) if f else ""
                if "ir_data_utils.copy(debug_info.ir)" not in src and "copy(" not in src:
                    res.add("glue|_cached_modules|copy", "cached module IR is handed out without a copy: later passes "
                            "would mutate the cache", glue.rel, n.lineno, f.qualname if f else "")
    mi = repo.mod("compiler/front_end/module_ir.py")
    readers = set()
    for f in mi.funcs.values():
        for n in walk_no_nested_funcs(f.node):
            if isinstance(n, ast.Name) and n.id == "_anonymous_name_counter":
                readers.add(f.qualname)
    if len(readers) > 1:
        res.add("module_ir|_anonymous_name_counter|readers", f"_anonymous_name_counter is used by {sorted(readers)}; only the "
                "anonymous-name generator may read it", mi.rel, 0)
    return res


# ---- positive controls ---------------------------------------------------------------------
_CTL = '''
import time
import os
_seen_files = {}

def render(names, errors):
    pending = set(names)
    out = []
    for n in pending:
        out.append(n)
    _seen_files[len(out)] = time.time()
    errors.append(", ".join(pending))
    return out + [os.environ.get("X")] + [hash(n)]
'''


def control(repo):
    r2 = Repo(repo.root, overlay={"compiler/front_end/zz_verif_control.py": _CTL})
    mods = [r2.mod("compiler/front_end/zz_verif_control.py")]
    u = unordered(r2, mods)
    i = impure(r2, mods)
    g = globalstate(r2, mods)
    kinds = {f.construct.split("|")[2] for f in u.findings}
    return ({"for", "join"} <= kinds and len(i.findings) >= 3
            and any("_seen_files" in f.construct for f in g.findings))


# ---- mutable default arguments ----------------------------------------------------------------
_MUTDEFAULT_CTL = '''
class Table(object):
    def __init__(self, rows, marks={}):
        self.rows = rows
        self.marks = marks

def harmless(x, seen=[]):
    return len(seen) + x
'''


def mutdefault(repo, modules=None, rel_suffixes=None):
    """R-MUTDEFAULT (C09/C17): a default value is evaluated once, when the `def` is executed, so a mutable default
    (`{}`, `[]`, `set()`, `dict()` ...) is module-lifetime state shared by every call that omits the argument.  It is
    harmless while the function only reads it; once the parameter is mutated, stored on an object, put into a
    container, returned or handed to another function, whatever one call (or the object it built) writes is seen by the
    next: two parsers built in one process share one default-error table, and the second answers with the first one's
    messages.  Reported: a parameter with a mutable default that is mutated or escapes."""
    res = RuleResult("R-MUTDEFAULT")
    mods = list(modules or repo.compile_path_modules())
    if rel_suffixes:
        mods = [m for m in repo.modules.values() if m.rel.endswith(tuple(rel_suffixes))]
        if len(mods) < len(rel_suffixes):
            raise AnalysisError(f"R-MUTDEFAULT: modules {rel_suffixes} not all found")

    def mutable(d):
        if isinstance(d, (ast.Dict, ast.List, ast.Set, ast.DictComp, ast.ListComp, ast.SetComp)):
            return True
        return isinstance(d, ast.Call) and (call_name(d) or "").split(".")[-1] in (
            "dict", "list", "set", "defaultdict", "OrderedDict", "deque", "bytearray", "Counter")
    for m in mods:
        for f in m.funcs.values():
            a = f.node.args
            pos = a.posonlyargs + a.args
            pairs = list(zip(pos[len(pos) - len(a.defaults):], a.defaults)) + \
                [(k, d) for k, d in zip(a.kwonlyargs, a.kw_defaults) if d is not None]
            res.instances += 1
            for arg, d in pairs:
                if not mutable(d):
                    continue
                p = arg.arg
                how = None
                for n in walk_no_nested_funcs(f.node):
                    if isinstance(n, ast.Call) and isinstance(n.func, ast.Attribute) and isinstance(n.func.value, ast.Name) \
                            and n.func.value.id == p and n.func.attr in MUTATORS:
                        how = f"{p}.{n.func.attr}(...)"
                    elif isinstance(n, (ast.Assign, ast.AugAssign, ast.AnnAssign)):
                        tgts = n.targets if isinstance(n, ast.Assign) else [n.target]
                        for t in tgts:
                            if isinstance(t, ast.Subscript) and isinstance(t.value, ast.Name) and t.value.id == p:
                                how = f"{p}[...] = ..."
                            elif isinstance(t, (ast.Attribute, ast.Subscript)) and n.value is not None and isinstance(n.value, ast.Name) and n.value.id == p:
                                how = f"`{ast.unparse(t)} = {p}` (the object keeps the shared default)"
                        if isinstance(n, ast.AugAssign) and isinstance(n.target, ast.Name) and n.target.id == p:
                            how = f"{p} {type(n.op).__name__}= ..."
                    elif isinstance(n, ast.Return) and isinstance(n.value, ast.Name) and n.value.id == p:
                        how = f"return {p}"
                    elif isinstance(n, ast.Call) and any(isinstance(x, ast.Name) and x.id == p for x in n.args + [k.value for k in n.keywords]) \
                            and (call_name(n) or "").split(".")[-1] not in ("len", "sorted", "list", "dict", "set", "tuple", "frozenset", "bool",
                                                                             "isinstance", "any", "all", "min", "max", "sum", "str", "repr", "iter", "enumerate", "zip"):
                        how = f"passed on: `{ast.unparse(n)[:50]}`"
                    elif isinstance(n, (ast.List, ast.Tuple, ast.Set, ast.Dict)) and isinstance(getattr(n, "ctx", ast.Load()), ast.Load):
                        vals = list(getattr(n, "elts", [])) + list(getattr(n, "values", []) or [])
                        if any(isinstance(x, ast.Name) and x.id == p for x in vals):
                            how = f"stored in `{ast.unparse(n)[:40]}`"
                    if how:
                        break
                if how:
                    res.add(f"{m.rel}|{f.qualname}|{p}", f"{f.qualname}: parameter `{p}` has the mutable default `{ast.unparse(d)}` and is "
                            f"{how}: the one default object is shared by every call that omits the argument, so state written "
                            "through one result shows up in the next (results depend on what ran earlier in the process)",
                            m.rel, arg.lineno, f.qualname)
    res.analysed = sorted(m.rel for m in mods)
    return res


def control_mutdefault(repo):
    r2 = Repo(repo.root, overlay={"compiler/front_end/zz_verif_control.py": _MUTDEFAULT_CTL})
    g = mutdefault(r2, [r2.mod("compiler/front_end/zz_verif_control.py")])
    return len(g.findings) == 1 and "marks" in g.findings[0].construct
