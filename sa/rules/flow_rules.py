"""R-DEADFLAG: a boolean local that distinguishes two kinds of node must be able to take both values where it is
tested.  If every assignment of one of the two constants sits in a block that ends in `return`/`raise`, the later
tests of the flag are vacuous: the function has stopped handling one of the kinds it was written to tell apart
(for example an `else: return` slipped in where `else: flag = False` used to be)."""
from __future__ import annotations

import ast

from ..pyfacts import walk_no_nested_funcs
from ..report import AnalysisError, RuleResult


def _cut_off(m, assign, tests):
    """The value assigned here cannot reach any of `tests`: the block of the assignment ends in return/raise and no
    test lies in that block after the assignment."""
    par = m.parent(assign)
    for fld in ("body", "orelse", "finalbody"):
        blk = getattr(par, fld, None)
        if isinstance(blk, list) and assign in blk:
            if not isinstance(blk[-1], (ast.Return, ast.Raise)):
                return False
            later = blk[blk.index(assign) + 1:]
            inside = {id(x) for st in later for x in ast.walk(st)}
            return not any(id(t) in inside for t in tests)
    return False


def deadflag(repo, modules=None):
    res = RuleResult("R-DEADFLAG")
    for m in repo.modules.values():
        if modules is not None and not m.rel.endswith(tuple(modules)):
            continue
        for f in m.funcs.values():
            assigns = {}
            for n in walk_no_nested_funcs(f.node):
                if isinstance(n, ast.Assign) and len(n.targets) == 1 and isinstance(n.targets[0], ast.Name):
                    assigns.setdefault(n.targets[0].id, []).append(n)
            for name, items in assigns.items():
                if not all(isinstance(a.value, ast.Constant) and isinstance(a.value.value, bool) for a in items):
                    continue
                tests = []
                for n in walk_no_nested_funcs(f.node):
                    t = getattr(n, "test", None) if isinstance(n, (ast.If, ast.IfExp, ast.While)) else None
                    if t is not None and any(isinstance(x, ast.Name) and x.id == name for x in ast.walk(t)):
                        tests.append(n)
                if not tests:
                    continue
                res.instances += 1
                every = {a.value.value for a in items}
                live = {a.value.value for a in items if not _cut_off(m, a, tests)}
                if len(every) == 2 or len(items) == 1:
                    pass
                if len(live) < 2 and (len(every) == 2 or len(items) >= 1) and len(live) == 1 and len(every) >= 1:
                    # one value only reaches the tests
                    if len(every) == 1 and len(items) == 1 and False:
                        continue
                    only = next(iter(live))
                    res.add(f"{m.rel}|{f.qualname}|{name}", f"{f.qualname}: `{name}` can only be {only} where it is tested (lines "
                            f"{', '.join(str(t.lineno) for t in tests[:4])}); the other case is "
                            f"{'cut off by a return/raise' if len(every) == 2 else 'never assigned'}: the nodes the flag was meant to "
                            "tell apart are no longer handled", m.rel, tests[0].lineno, f.qualname)
                elif len(res.samples) < 3:
                    res.samples.append(f"{f.qualname}: {name} takes {sorted(live)}")
    if res.instances == 0 and modules is None:
        raise AnalysisError("no boolean flag locals found")
    return res


def runmax(repo, modules=None):
    """R-RUNMAX: the running-extremum idiom `if candidate >= best: best = value` keeps the largest (smallest) value seen
    only if the value that is stored is the value that was compared.  Comparing one quantity (a field's start) and storing
    another (its end) under-computes the extremum whenever a later item starts inside the extent seen so far but ends
    beyond it — e.g. the fixed size of a structure with overlapping fields."""
    res = RuleResult("R-RUNMAX")
    for m in repo.modules.values():
        if modules is not None and not m.rel.endswith(tuple(modules)):
            continue
        for f in m.funcs.values():
            for n in walk_no_nested_funcs(f.node):
                if not (isinstance(n, ast.If) and isinstance(n.test, ast.Compare) and len(n.test.ops) == 1 and not n.orelse
                        and len(n.body) == 1 and isinstance(n.body[0], ast.Assign) and len(n.body[0].targets) == 1
                        and isinstance(n.body[0].targets[0], ast.Name)):
                    continue
                acc = n.body[0].targets[0].id
                l, r = n.test.left, n.test.comparators[0]
                op = n.test.ops[0]
                if not isinstance(op, (ast.Gt, ast.GtE, ast.Lt, ast.LtE)):
                    continue
                if isinstance(r, ast.Name) and r.id == acc:
                    cand = l
                elif isinstance(l, ast.Name) and l.id == acc:
                    cand = r
                else:
                    continue
                if isinstance(cand, ast.Constant):
                    continue  # a sentinel test (`if pos < 0: pos = end`), not a running extremum
                # only inside a loop
                in_loop = False
                cur = m.parent(n)
                while cur is not None and cur is not f.node:
                    if isinstance(cur, (ast.For, ast.While)):
                        in_loop = True
                    cur = m.parent(cur)
                if not in_loop:
                    continue
                res.instances += 1
                if ast.unparse(cand) != ast.unparse(n.body[0].value):
                    res.add(f"{m.rel}|{f.qualname}|{acc}", f"{f.qualname}: `if {ast.unparse(n.test)}: {acc} = {ast.unparse(n.body[0].value)}` compares "
                            f"`{ast.unparse(cand)}` but stores `{ast.unparse(n.body[0].value)}`: the running extremum is wrong for items "
                            "that overlap the extent seen so far", m.rel, n.lineno, f.qualname)
                elif len(res.samples) < 3:
                    res.samples.append(f"{f.qualname}: {acc} <- {ast.unparse(cand)}")
    return res


_MUTATORS = {"append", "extend", "insert", "pop", "remove", "clear", "add", "discard", "update", "setdefault", "popitem",
             "CopyFrom", "MergeFrom", "sort", "reverse", "write", "close"}


def asserteffect(repo):
    """R-ASSERTEFFECT (C18/C16): `python -O` (which ir_data.py itself recommends for speed) removes every `assert` statement,
    test and message included.  An assert whose test binds a name (`:=`) or calls a mutating method therefore changes the
    behaviour of the compiler between the two modes: with the binding gone, the next use of the name raises
    UnboundLocalError.  No assert on the compile path may contain a binding or a mutator call.  The rule runs its pattern
    on a built-in positive example on every run."""
    res = RuleResult("R-ASSERTEFFECT")

    def effects(node):
        out = []
        for x in ast.walk(node):
            if isinstance(x, ast.NamedExpr):
                out.append(f"binds `{ast.unparse(x.target)}`")
            if isinstance(x, ast.Call) and isinstance(x.func, ast.Attribute) and x.func.attr in _MUTATORS:
                out.append(f"calls .{x.func.attr}()")
        return out

    sample = ast.parse("def f(d):\n    assert isinstance(x := load(d), dict), 'bad'\n    assert q.pop() == 1\n    assert len(d) > 0\n    return x\n")
    hits = [effects(n.test) + (effects(n.msg) if n.msg else []) for n in ast.walk(sample) if isinstance(n, ast.Assert)]
    if [bool(h) for h in hits] != [True, True, False]:
        raise AnalysisError("R-ASSERTEFFECT: built-in example no longer matches as expected")
    res.control_fired = True
    for m in repo.compile_path_modules():
        for f in list(m.funcs.values()) + [None]:
            nodes = walk_no_nested_funcs(f.node) if f is not None else [n for n in m.tree.body]
            for n in nodes:
                if isinstance(n, ast.Assert):
                    res.instances += 1
                    eff = effects(n.test) + (effects(n.msg) if n.msg is not None else [])
                    if eff:
                        where = f.qualname if f else "<module>"
                        res.add(f"{m.rel}|{where}|assert", f"{where}: `assert {ast.unparse(n.test)[:80]}` {', '.join(eff)}: under `python -O` the statement "
                                "disappears together with that effect, so the compiler behaves differently (UnboundLocalError, skipped "
                                "update) from the run the tests exercise", m.rel, n.lineno, where)
    if res.instances < 50:
        raise AnalysisError(f"only {res.instances} assert statements found on the compile path")
    res.samples = [f"{res.instances} assert statements, none with a binding or a mutator call"]
    return res
