"""R-DEADFLAG: a boolean local that distinguishes two kinds of node must be able to take both values where it is
tested.  If every assignment of one of the two constants sits in a block that ends in `return`/`raise`, the later
tests of the flag are vacuous: the function has stopped handling one of the kinds it was written to tell apart
(for example an `else: return` slipped in where `else: flag = False` used to be)."""
from __future__ import annotations

import ast

import re

from ..pyfacts import call_name, walk_no_nested_funcs
from ..report import AnalysisError, RuleResult


def _cut_off(m, assign, tests):
    """The value assigned here cannot reach any of `tests`: the block of the assignment ends in return/raise and no
    test lies in that block after the assignment."""
    par = m.parent(assign)
    for fld in ("body", "orelse", "finalbody"):
        blk = getattr(par, fld, None)
        if isinstance(blk, list) and assign in blk:
            if not isinstance(blk[-1], (ast.Return, ast.Raise)):
                return False
            later = blk[blk.index(assign) + 1:]
            inside = {id(x) for st in later for x in ast.walk(st)}
            return not any(id(t) in inside for t in tests)
    return False


def deadflag(repo, modules=None):
    res = RuleResult("R-DEADFLAG")
    for m in repo.modules.values():
        if modules is not None and not m.rel.endswith(tuple(modules)):
            continue
        for f in m.funcs.values():
            assigns = {}
            for n in walk_no_nested_funcs(f.node):
                if isinstance(n, ast.Assign) and len(n.targets) == 1 and isinstance(n.targets[0], ast.Name):
                    assigns.setdefault(n.targets[0].id, []).append(n)
            for name, items in assigns.items():
                if not all(isinstance(a.value, ast.Constant) and isinstance(a.value.value, bool) for a in items):
                    continue
                tests = []
                for n in walk_no_nested_funcs(f.node):
                    t = getattr(n, "test", None) if isinstance(n, (ast.If, ast.IfExp, ast.While)) else None
                    if t is not None and any(isinstance(x, ast.Name) and x.id == name for x in ast.walk(t)):
                        tests.append(n)
                if not tests:
                    continue
                res.instances += 1
                every = {a.value.value for a in items}
                live = {a.value.value for a in items if not _cut_off(m, a, tests)}
                if len(every) == 2 or len(items) == 1:
                    pass
                if len(live) < 2 and (len(every) == 2 or len(items) >= 1) and len(live) == 1 and len(every) >= 1:
                    # one value only reaches the tests
                    if len(every) == 1 and len(items) == 1 and False:
                        continue
                    only = next(iter(live))
                    res.add(f"{m.rel}|{f.qualname}|{name}", f"{f.qualname}: `{name}` can only be {only} where it is tested (lines "
                            f"{', '.join(str(t.lineno) for t in tests[:4])}); the other case is "
                            f"{'cut off by a return/raise' if len(every) == 2 else 'never assigned'}: the nodes the flag was meant to "
                            "tell apart are no longer handled", m.rel, tests[0].lineno, f.qualname)
                elif len(res.samples) < 3:
                    res.samples.append(f"{f.qualname}: {name} takes {sorted(live)}")
    if res.instances == 0 and modules is None:
        raise AnalysisError("no boolean flag locals found")
    return res


def runmax(repo, modules=None):
    """R-RUNMAX: the running-extremum idiom `if candidate >= best: best = value` keeps the largest (smallest) value seen
    only if the value that is stored is the value that was compared.  Comparing one quantity (a field's start) and storing
    another (its end) under-computes the extremum whenever a later item starts inside the extent seen so far but ends
    beyond it — e.g. the fixed size of a structure with overlapping fields."""
    res = RuleResult("R-RUNMAX")
    for m in repo.modules.values():
        if modules is not None and not m.rel.endswith(tuple(modules)):
            continue
        for f in m.funcs.values():
            for n in walk_no_nested_funcs(f.node):
                if not (isinstance(n, ast.If) and isinstance(n.test, ast.Compare) and len(n.test.ops) == 1 and not n.orelse
                        and len(n.body) == 1 and isinstance(n.body[0], ast.Assign) and len(n.body[0].targets) == 1
                        and isinstance(n.body[0].targets[0], ast.Name)):
                    continue
                acc = n.body[0].targets[0].id
                l, r = n.test.left, n.test.comparators[0]
                op = n.test.ops[0]
                if not isinstance(op, (ast.Gt, ast.GtE, ast.Lt, ast.LtE)):
                    continue
                if isinstance(r, ast.Name) and r.id == acc:
                    cand = l
                elif isinstance(l, ast.Name) and l.id == acc:
                    cand = r
                else:
                    continue
                if isinstance(cand, ast.Constant):
                    continue  # a sentinel test (`if pos < 0: pos = end`), not a running extremum
                # only inside a loop
                in_loop = False
                cur = m.parent(n)
                while cur is not None and cur is not f.node:
                    if isinstance(cur, (ast.For, ast.While)):
                        in_loop = True
                    cur = m.parent(cur)
                if not in_loop:
                    continue
                res.instances += 1
                if ast.unparse(cand) != ast.unparse(n.body[0].value):
                    res.add(f"{m.rel}|{f.qualname}|{acc}", f"{f.qualname}: `if {ast.unparse(n.test)}: {acc} = {ast.unparse(n.body[0].value)}` compares "
                            f"`{ast.unparse(cand)}` but stores `{ast.unparse(n.body[0].value)}`: the running extremum is wrong for items "
                            "that overlap the extent seen so far", m.rel, n.lineno, f.qualname)
                elif len(res.samples) < 3:
                    res.samples.append(f"{f.qualname}: {acc} <- {ast.unparse(cand)}")
    return res


_MUTATORS = {"append", "extend", "insert", "pop", "remove", "clear", "add", "discard", "update", "setdefault", "popitem",
             "CopyFrom", "MergeFrom", "sort", "reverse", "write", "close"}


def asserteffect(repo):
    """R-ASSERTEFFECT (C18/C16): `python -O` (which ir_data.py itself recommends for speed) removes every `assert` statement,
    test and message included.  An assert whose test binds a name (`:=`) or calls a mutating method therefore changes the
    behaviour of the compiler between the two modes: with the binding gone, the next use of the name raises
    UnboundLocalError.  No assert on the compile path may contain a binding or a mutator call.  The rule runs its pattern
    on a built-in positive example on every run."""
    res = RuleResult("R-ASSERTEFFECT")

    def effects(node):
        out = []
        for x in ast.walk(node):
            if isinstance(x, ast.NamedExpr):
                out.append(f"binds `{ast.unparse(x.target)}`")
            if isinstance(x, ast.Call) and isinstance(x.func, ast.Attribute) and x.func.attr in _MUTATORS:
                out.append(f"calls .{x.func.attr}()")
        return out

    sample = ast.parse("def f(d):\n    assert isinstance(x := load(d), dict), 'bad'\n    assert q.pop() == 1\n    assert len(d) > 0\n    return x\n")
    hits = [effects(n.test) + (effects(n.msg) if n.msg else []) for n in ast.walk(sample) if isinstance(n, ast.Assert)]
    if [bool(h) for h in hits] != [True, True, False]:
        raise AnalysisError("R-ASSERTEFFECT: built-in example no longer matches as expected")
    res.control_fired = True
    for m in repo.compile_path_modules():
        for f in list(m.funcs.values()) + [None]:
            nodes = walk_no_nested_funcs(f.node) if f is not None else [n for n in m.tree.body]
            for n in nodes:
                if isinstance(n, ast.Assert):
                    res.instances += 1
                    eff = effects(n.test) + (effects(n.msg) if n.msg is not None else [])
                    if eff:
                        where = f.qualname if f else "<module>"
                        res.add(f"{m.rel}|{where}|assert", f"{where}: `assert {ast.unparse(n.test)[:80]}` {', '.join(eff)}: under `python -O` the statement "
                                "disappears together with that effect, so the compiler behaves differently (UnboundLocalError, skipped "
                                "update) from the run the tests exercise", m.rel, n.lineno, where)
    if res.instances < 50:
        raise AnalysisError(f"only {res.instances} assert statements found on the compile path")
    res.samples = [f"{res.instances} assert statements, none with a binding or a mutator call"]
    return res


# --- R-TYPEANNOT -------------------------------------------------------------------------------------------------
def typeannot(repo):
    """R-TYPEANNOT (C13/C16): the checks of enclosing expressions read `<arg>.type.which_type` directly, so every
    function of type_check.py that annotates its expression on some path must annotate it on every path that leaves
    the function -- including the early `return` after reporting an error.  An annotation is a call of `_annotate_as_*`
    / `_set_expression_type_*` with the expression, `builder(expression).type....CopyFrom(...)`, an assignment through
    `builder(expression).type`, or a call of another function that annotates on every path (summaries to a fixed
    point).  Paths are enumerated over if/else, loops (zero or more iterations), try and early exits; a path ending in
    `assert False`/raise is not an exit."""
    res = RuleResult("R-TYPEANNOT")
    m = repo.mod("compiler/front_end/type_check.py")
    funcs = {f.name: f for f in m.top_funcs()}

    def first_param(f):
        a = f.node.args.args
        return a[0].arg if a else None

    def direct_annotation(st, var, always):
        """statement (or expression inside it) that unconditionally types `var`."""
        for n in ast.walk(st):
            if isinstance(n, ast.Call):
                name = n.func.attr if isinstance(n.func, ast.Attribute) else n.func.id if isinstance(n.func, ast.Name) else ""
                args = [a for a in n.args if isinstance(a, ast.Name)]
                if args and n.args and args[0] is n.args[0] and args[0].id == var and (name.startswith("_annotate_as_") or name.startswith("_set_expression_type")
                                                   or name in always):
                    return True
                # builder(expression).type.<x>.CopyFrom(...)
                if name == "CopyFrom" and isinstance(n.func, ast.Attribute):
                    chain = ast.unparse(n.func.value)
                    if re.match(r"(ir_data_utils\.)?builder\(" + re.escape(var) + r"\)\.type\b", chain):
                        return True
            if isinstance(n, ast.Assign):
                for t in n.targets:
                    if re.match(r"(ir_data_utils\.)?builder\(" + re.escape(var) + r"\)\.type\b", ast.unparse(t)):
                        return True
        return False

    def is_dead_end(st):
        if isinstance(st, ast.Raise):
            return True
        if isinstance(st, ast.Assert) and isinstance(st.test, ast.Constant) and st.test.value is False:
            return True
        return False

    def paths(stmts, states, var, always, exits):
        """states: set of booleans (annotated so far) reaching the block; returns the set falling out of it."""
        cur = set(states)
        for st in stmts:
            if not cur:
                break
            if is_dead_end(st):
                return set()
            if isinstance(st, ast.Return):
                for s in cur:
                    exits.append((s or (st.value is not None and direct_annotation(st, var, always)), st.lineno))
                return set()
            if isinstance(st, ast.If):
                a = paths(st.body, cur, var, always, exits)
                b = paths(st.orelse, cur, var, always, exits)
                cur = a | b
                continue
            if isinstance(st, (ast.For, ast.While)):
                body = paths(st.body, cur, var, always, exits)
                cur = cur | body | paths(st.orelse, cur | body, var, always, exits)
                continue
            if isinstance(st, ast.Try):
                body = paths(st.body, cur, var, always, exits)
                hs = set()
                for h in st.handlers:
                    hs |= paths(h.body, cur | body, var, always, exits)
                cur = paths(st.finalbody, body | hs, var, always, exits) if st.finalbody else body | hs
                continue
            if isinstance(st, ast.With):
                cur = paths(st.body, cur, var, always, exits)
                continue
            if isinstance(st, (ast.FunctionDef, ast.ClassDef)):
                continue
            if direct_annotation(st, var, always):
                cur = {True}
        return cur

    def analyse(f, always):
        var = first_param(f)
        exits = []
        fall = paths(f.node.body, {False}, var, always, exits)
        for s in fall:
            exits.append((s, f.node.end_lineno))
        return exits

    candidates = {}
    for name, f in funcs.items():
        var = first_param(f)
        if var != "expression":
            continue
        if direct_annotation(f.node, var, set()):
            candidates[name] = f
    # summaries: functions that annotate on every exit
    always = set()
    changed = True
    while changed:
        changed = False
        for name, f in candidates.items():
            if name in always:
                continue
            ex = analyse(f, always)
            if ex and all(s for s, _ in ex):
                always.add(name)
                changed = True
    for name, f in sorted(candidates.items()):
        ex = analyse(f, always)
        res.instances += len(ex)
        bad = sorted({ln for s, ln in ex if not s})
        if name == "_type_check_expression":
            # the dispatcher: its `already checked` early return leaves an existing annotation in place
            bad = [ln for ln in bad if not _already_typed_guard(f, ln)]
        for ln in bad:
            res.add(f"{m.rel}|{name}|untyped-exit", f"{name} can leave at line {ln} without having set the type of `expression` "
                    "(other paths of the same function set it): the check of an enclosing operator then reads "
                    "`.type.which_type` of an untyped expression -> AttributeError instead of the diagnostic",
                    m.rel, ln, name)
    res.samples = [f"annotating functions: {sorted(candidates)}", f"annotate on every exit: {sorted(always)}"]
    if len(candidates) < 6:
        raise AnalysisError(f"type_check.py: only {len(candidates)} annotating functions recognised")
    res.analysed = [m.rel]
    return res


def _already_typed_guard(f, ln):
    """the return at line ln sits under `if <expression>.type.which_type ...` / has_field("type")."""
    for n in ast.walk(f.node):
        if isinstance(n, ast.If) and any(isinstance(x, ast.Return) and x.lineno == ln for x in n.body):
            t = ast.unparse(n.test)
            if "type" in t:
                return True
    return False


# --- R-PRECOND ---------------------------------------------------------------------------------------------------
def precond(repo):
    """R-PRECOND (C16/C13): a helper of type_check.py that dispatches on `<param>.type.which_type` and ends in
    `assert False` for every other kind has a precondition: (one of) its arguments has a kind from the handled set D.
    User input reaches the assertion unless every call is dominated by a guard `X.type.which_type not in S: <leave>` with
    S a subset of D and X one of the call's arguments (directly, or X is the loop variable of a `for X, _ in ((a, ..),
    (b, ..))` over the arguments).  D and S are read from the source (S may be a local bound to tuple literals)."""
    res = RuleResult("R-PRECOND")
    m = repo.mod("compiler/front_end/type_check.py")
    helpers = {}
    for f in m.top_funcs():
        last = f.node.body[-1] if f.node.body else None
        # if/elif chain on which_type whose final else is `assert False`
        chain = last
        dom = set()
        found = False
        while isinstance(chain, ast.If):
            t = ast.unparse(chain.test)
            if "which_type" in t:
                dom |= {c.value for c in ast.walk(chain.test) if isinstance(c, ast.Constant) and isinstance(c.value, str)}
            if len(chain.orelse) == 1 and isinstance(chain.orelse[0], ast.If):
                chain = chain.orelse[0]
                continue
            if chain.orelse and isinstance(chain.orelse[0], ast.Assert) and isinstance(chain.orelse[0].test, ast.Constant) \
                    and chain.orelse[0].test.value is False:
                found = True
            break
        if found and dom and f.name.startswith("_types_"):
            helpers[f.name] = dom
    if not helpers:
        raise AnalysisError("type_check.py: no helper with a which_type dispatch ending in `assert False` found")
    for f in m.top_funcs():
        parents = {}
        for n in ast.walk(f.node):
            for c in ast.iter_child_nodes(n):
                parents[id(c)] = n
        tuples = {}
        for n in walk_no_nested_funcs(f.node):
            if isinstance(n, ast.Assign) and len(n.targets) == 1 and isinstance(n.targets[0], ast.Name) and isinstance(n.value, ast.Tuple):
                vals = {c.value for c in n.value.elts if isinstance(c, ast.Constant)}
                tuples.setdefault(n.targets[0].id, set()).update(vals)

        def guard_of(st):
            """(guarded expression texts, allowed kinds) if st is `if X.type.which_type not in S: ...leave`."""
            if not (isinstance(st, ast.If) and isinstance(st.test, ast.Compare) and len(st.test.ops) == 1
                    and isinstance(st.test.ops[0], ast.NotIn) and isinstance(st.test.left, ast.Attribute)
                    and st.test.left.attr == "which_type"):
                return None
            if not (st.body and any(isinstance(x, (ast.Return, ast.Continue, ast.Raise)) for x in st.body)):
                return None
            comp = st.test.comparators[0]
            if isinstance(comp, ast.Tuple):
                allowed = {c.value for c in comp.elts if isinstance(c, ast.Constant)}
            elif isinstance(comp, ast.Name) and comp.id in tuples:
                allowed = tuples[comp.id]
            else:
                return None
            base = st.test.left.value            # X.type
            if isinstance(base, ast.Attribute) and base.attr == "type":
                base = base.value
            return ast.unparse(base), allowed

        for call in walk_no_nested_funcs(f.node):
            if not (isinstance(call, ast.Call) and isinstance(call.func, ast.Name) and call.func.id in helpers):
                continue
            dom = helpers[call.func.id]
            res.instances += 1
            args = {ast.unparse(a) for a in call.args}
            ok = False
            # climb: for each enclosing block, look at the statements before the one containing the call
            node = call
            while id(node) in parents and not ok:
                par = parents[id(node)]
                for fld in ("body", "orelse", "finalbody"):
                    blk = getattr(par, fld, None)
                    if isinstance(blk, list) and node in blk:
                        for st in blk[:blk.index(node)]:
                            g = guard_of(st)
                            if g and g[0] in args and g[1] <= dom:
                                ok = True
                            # a loop over the arguments that leaves the function on a bad kind
                            if isinstance(st, ast.For) and isinstance(st.iter, ast.Tuple) and isinstance(st.target, ast.Tuple) \
                                    and st.target.elts and isinstance(st.target.elts[0], ast.Name):
                                lv = st.target.elts[0].id
                                firsts = {ast.unparse(e.elts[0]) for e in st.iter.elts if isinstance(e, ast.Tuple) and e.elts}
                                for inner in st.body:
                                    g = guard_of(inner)
                                    if g and g[0] == lv and g[1] <= dom and (firsts & args) \
                                            and any(isinstance(x, ast.Return) for x in inner.body):
                                        ok = True
                node = par
            if not ok:
                res.add(f"{m.rel}|{f.name}|{call.func.id}", f"{f.name} calls {call.func.id}({', '.join(sorted(args))}) without first "
                        f"excluding kinds outside {sorted(dom)}: for two operands of the same other kind (struct, array, opaque) "
                        f"{call.func.id} ends in `assert False` -- an AssertionError instead of the diagnostic", m.rel, call.lineno, f.name)
    if res.instances < 3 and not res.findings:
        raise AnalysisError(f"only {res.instances} calls of {sorted(helpers)} found")
    res.samples = [f"{k}: handles {sorted(v)}" for k, v in helpers.items()]
    res.analysed = [m.rel]
    return res


# --- R-LOOPACC ---------------------------------------------------------------------------------------------------
def loopacc(repo, modules=None):
    """R-LOOPACC (C01 and wherever generated text is assembled): a name that is initialised to an empty accumulator
    (`""`, `[]`, `{}`, `set()`) right before a `for` loop and read after it must *accumulate* in the loop
    (`+=`, `.append/.extend/.add/.update`, or `x = x + ...`).  A plain `x = <expression without x>` in the loop body keeps
    only the last iteration: e.g. the `.Known() &&` guard of a parameterised field then tests only its last argument."""
    res = RuleResult("R-LOOPACC")
    for m in repo.modules.values():
        if not m.rel.startswith("compiler/") or (modules is not None and m.rel not in modules):
            continue
        for f in m.funcs.values():
            for blk in ast.walk(f.node):
                for fld in ("body", "orelse", "finalbody"):
                    stmts = getattr(blk, fld, None)
                    if not isinstance(stmts, list):
                        continue
                    empties = {}
                    for i, st in enumerate(stmts):
                        if isinstance(st, ast.Assign) and len(st.targets) == 1 and isinstance(st.targets[0], ast.Name):
                            v = st.value
                            if (isinstance(v, ast.Constant) and v.value == "") or (isinstance(v, (ast.List, ast.Dict)) and not (getattr(v, "elts", None) or getattr(v, "keys", None))) \
                                    or (isinstance(v, ast.Call) and isinstance(v.func, ast.Name) and v.func.id in ("set", "list", "dict") and not v.args):
                                empties[st.targets[0].id] = i
                            else:
                                empties.pop(st.targets[0].id, None)
                        if isinstance(st, ast.For) and empties:
                            for name, at in list(empties.items()):
                                plain, acc = [], False
                                for n in ast.walk(st):
                                    if isinstance(n, ast.Assign) and any(isinstance(t, ast.Name) and t.id == name for t in n.targets):
                                        if any(isinstance(x, ast.Name) and x.id == name for x in ast.walk(n.value)):
                                            acc = True
                                        else:
                                            plain.append(n)
                                    if isinstance(n, ast.AugAssign) and isinstance(n.target, ast.Name) and n.target.id == name:
                                        acc = True
                                    if isinstance(n, ast.Call) and isinstance(n.func, ast.Attribute) and isinstance(n.func.value, ast.Name) \
                                            and n.func.value.id == name and n.func.attr in ("append", "extend", "add", "update", "insert", "setdefault"):
                                        acc = True
                                    if isinstance(n, ast.Subscript) and isinstance(n.value, ast.Name) and n.value.id == name and isinstance(n.ctx, ast.Store):
                                        acc = True
                                if not plain and not acc:
                                    continue
                                res.instances += 1
                                used_after = any(isinstance(x, ast.Name) and x.id == name and isinstance(x.ctx, ast.Load)
                                                 for later in stmts[i + 1:] for x in ast.walk(later))
                                # a plain assignment directly followed by `break` is a search result, not an accumulation
                                searches = all(_followed_by_break(st, pa) for pa in plain)
                                # only an *unconditional* overwrite (a direct statement of the loop body) is an accumulation gone
                                # wrong; an assignment under `if` is a default-plus-found or running-best pattern
                                plain = [pa for pa in plain if pa in st.body]
                                if plain and not acc and used_after and not searches:
                                    res.add(f"{m.rel}|{f.qualname}|{name}", f"{f.qualname}: `{name}` starts as an empty accumulator (line "
                                            f"{stmts[at].lineno}) but the loop at line {st.lineno} assigns it afresh "
                                            f"(`{ast.unparse(plain[0])[:70]}`) instead of adding to it: only the last iteration's "
                                            "value reaches the code after the loop", m.rel, plain[0].lineno, f.qualname)
    if res.instances < 20 and not res.findings and modules is None:
        raise AnalysisError(f"only {res.instances} accumulator loops found in the compiler")
    res.analysed = ["compiler/**/*.py"] if modules is None else list(modules)
    return res


def _followed_by_break(loop, assign):
    for n in ast.walk(loop):
        for fld in ("body", "orelse"):
            b = getattr(n, fld, None)
            if isinstance(b, list) and assign in b:
                k = b.index(assign)
                return any(isinstance(x, (ast.Break, ast.Return)) for x in b[k + 1:k + 3])
    return False


# --- R-STALELOOPVAR ----------------------------------------------------------------------------------------------
_STALE_CTL = '''
def widths(blocks):
    table = {}
    for block in blocks:
        row = table.setdefault(block.kind, {})
        row[0] = max(row.get(0, 0), len(block.text))
    out = []
    for block in blocks:
        out.append(block.text.ljust(row[0]))
    return out
'''


def staleloopvar(repo, modules=None, mods=None):
    """R-STALELOOPVAR (C11): a name that is bound only inside the body of one top-level `for` loop of a function is a
    per-iteration temporary.  Read after that loop (typically inside the next loop over the same items) it holds
    whatever the *last* iteration left -- in _columnize the width table of the last block's row type instead of the
    current block's.  Reported: such a read.  (Names also bound before the loop, parameters, and accumulators are not
    temporaries and are not reported.)"""
    res = RuleResult("R-STALELOOPVAR")
    if mods is None:
        mods = [m for m in repo.modules.values() if (modules is None and m.rel.startswith("compiler/") and not m.rel.endswith("_test.py"))
                or (modules is not None and m.rel.endswith(tuple(modules)))]
    if not mods:
        raise AnalysisError(f"R-STALELOOPVAR: modules {modules} not found")

    def stores(node):
        return {x.id for x in ast.walk(node) if isinstance(x, ast.Name) and isinstance(x.ctx, ast.Store)}

    for m in mods:
        for f in m.funcs.values():
            body = f.node.body
            params = {a.arg for a in f.node.args.args + f.node.args.kwonlyargs}
            for i, lp in enumerate(body):
                if not isinstance(lp, ast.For):
                    continue
                res.instances += 1
                inner = stores(lp.target)
                for st in lp.body:
                    inner |= stores(st)
                others = set()
                for st in body:
                    if st is not lp:
                        others |= stores(st)
                temps = inner - others - params
                for st in body[i + 1:]:
                    for x in ast.walk(st):
                        if isinstance(x, ast.Name) and isinstance(x.ctx, ast.Load) and x.id in temps:
                            res.add(f"{m.rel}|{f.qualname}|{x.id}", f"{f.qualname} reads `{x.id}` at line {x.lineno}, after the loop at line "
                                    f"{lp.lineno} that is the only place binding it: the value is the one left by the last iteration "
                                    "(for the formatter: every row is laid out with the column widths of the last block's row type, "
                                    "so separators vanish and the output does not parse)", m.rel, x.lineno, f.qualname)
                            temps = temps - {x.id}
    return res


def control_staleloopvar(repo):
    from ..pyfacts import Repo
    r2 = Repo(repo.root, overlay={"compiler/front_end/zz_verif_control.py": _STALE_CTL})
    g = staleloopvar(r2, mods=[r2.mod("compiler/front_end/zz_verif_control.py")])
    return len(g.findings) == 1 and "row" in g.findings[0].construct
