"""Rules about the runtime's storage windows (emboss_memory_util.h).

R-WINDOW (C02/C03): a class that is a window at `offset_` into an underlying block must apply `offset_` in
every method that touches the underlying block (directly or through its own helper methods).  A method that
reads, writes or re-windows the block without `offset_` addresses the wrong bits for every window that does
not start at bit 0.

R-SUBALIGN (C04): the static (alignment, offset) facts of a sub-buffer are computed from the parent's facts and
the sub-buffer's relative facts.  In the member alias template that names the sub-buffer type, the argument in
the position of each non-type class template parameter must depend on that parameter and on an alias
parameter; dropping the parent's offset makes `MemoryAccessor` pick an aligned load for an unaligned address."""
from __future__ import annotations

import re

from ..cppast import CppFacts, tokens
from ..report import AnalysisError, RuleResult

MEM = "runtime/cpp/emboss_memory_util.h"


def _class_text(facts, q):
    out = []
    for c in facts.classes.get(q, []):
        if c["kind"] != "CXXRecordDecl":
            continue  # implicit instantiations repeat the primary template's text
        try:
            src = facts.repo.read(c["file"])
        except Exception:
            continue
        out.append((c, src))
    return out


def _members(text):
    """Data members declared at class depth: identifiers ending in '_' directly followed by ';'."""
    toks = tokens(text)
    depth = 0
    out = []
    for i, t in enumerate(toks):
        if t == "{":
            depth += 1
        elif t == "}":
            depth -= 1
        elif depth == 1 and t == ";" and i > 0 and re.fullmatch(r"[a-z][a-z_0-9]*_", toks[i - 1]):
            out.append(toks[i - 1])
    return out


def window(facts: CppFacts):
    res = RuleResult("R-WINDOW")
    nclasses = 0
    for q in sorted(facts.classes):
        short = q.rsplit("::", 1)[-1]
        methods = [m for m in facts.methods if m.cls == q]
        if not methods:
            continue
        ct = _class_text(facts, q)
        if not ct:
            continue
        c, src = ct[0]
        text = src[c["begin"]:c["end"]]
        mem = _members(text)
        if "offset_" not in mem:
            continue
        storage = [x for x in mem if x not in ("offset_", "size_", "ok_")]
        if len(storage) != 1:
            raise AnalysisError(f"{q}: cannot identify the underlying storage member among {mem}")
        base = storage[0]
        nclasses += 1
        own = {m.name: m for m in methods if m.kind != "CXXConstructorDecl"}
        uses_off = {n: bool(re.search(r"\boffset_\b", m.body)) for n, m in own.items()}
        changed = True
        while changed:
            changed = False
            for n, m in own.items():
                if not uses_off[n]:
                    for callee in own:
                        if callee != n and uses_off[callee] and re.search(r"(?<![.\w>])" + re.escape(callee) + r"\s*\(", m.body):
                            uses_off[n] = True
                            changed = True
        for n, m in sorted(own.items()):
            if not re.search(r"\b" + re.escape(base) + r"\b", m.body):
                continue
            res.instances += 1
            if not uses_off[n]:
                res.add(f"{m.file}|{short}::{n}|offset", f"{short}::{n} uses the underlying `{base}` but never applies "
                        f"`offset_`: {short} is a window starting at bit `offset_` of `{base}`, so this method addresses the "
                        "bits at the start of the block instead of the window's own bits", m.file, m.line, f"{short}::{n}")
            elif len(res.samples) < 4:
                res.samples.append(f"{short}::{n}: {base} with offset_")
    if nclasses == 0:
        raise AnalysisError("no window class (data member `offset_`) found in the runtime")
    res.detail = {"window_classes": nclasses}
    res.analysed = [MEM]
    return res


def _split_args(toks):
    args, cur, depth = [], [], 0
    for t in toks:
        if t in ("<", "(", "["):
            depth += 1
        elif t in (">", ")", "]"):
            depth -= 1
        if t == "," and depth == 0:
            args.append(cur)
            cur = []
        else:
            cur.append(t)
    if cur:
        args.append(cur)
    return args


def _template_header_before(src, begin):
    """Parameters [(kind, name)] of the `template <...>` immediately preceding offset `begin`."""
    i = src.rfind("template", 0, begin)
    if i < 0:
        return None
    between = src[i:begin]
    toks = tokens(between)
    if len(toks) < 3 or toks[1] != "<":
        return None
    depth = 0
    inner = []
    end = None
    for k, t in enumerate(toks[1:], 1):
        if t == "<":
            depth += 1
            if depth == 1:
                continue
        elif t == ">":
            depth -= 1
            if depth == 0:
                end = k
                break
        inner.append(t)
    if end is None or any(t not in ("class", "struct", "final") for t in toks[end + 1:] if not re.fullmatch(r"\w+", t)):
        pass
    params = []
    for a in _split_args(inner):
        a = [t for t in a if t != "::"]
        if not a:
            continue
        if "=" in a:
            a = a[:a.index("=")]
        kind = "type" if a[0] in ("class", "typename") else "value"
        params.append((kind, a[-1]))
    return params


def subalign(facts: CppFacts):
    res = RuleResult("R-SUBALIGN")
    for q in sorted(facts.classes):
        short = q.rsplit("::", 1)[-1]
        gos = [m for m in facts.methods if m.cls == q and m.name == "GetOffsetStorage"]
        if not gos:
            continue
        for c, src in _class_text(facts, q):
            text = src[c["begin"]:c["end"]]
            for am in re.finditer(r"template\s*<([^;{}]*?)>\s*using\s+(\w+)\s*=\s*([^;]+);", text, re.S):
                alias = am.group(2)
                if not any(re.search(r"\b" + alias + r"\b", g.decl_text) for g in gos):
                    continue
                aparams = [a[-1] for a in _split_args([t for t in tokens(am.group(1)) if t != "/**/"]) if a]
                rhs = tokens(am.group(3))
                if not rhs or rhs[0] != short or "<" not in rhs:
                    continue  # names another class (bit blocks carry no alignment facts)
                cparams = _template_header_before(src, c["begin"])
                if not cparams:
                    raise AnalysisError(f"{short}: template header not found")
                lt = rhs.index("<")
                args = _split_args(rhs[lt + 1:len(rhs) - 1 - rhs[::-1].index(">")])
                line = src.count("\n", 0, c["begin"] + am.start()) + 1
                if len(args) != len(cparams):
                    raise AnalysisError(f"{short}::{alias}: {len(args)} arguments for {len(cparams)} parameters")
                for (kind, pname), arg in zip(cparams, args):
                    if kind != "value":
                        continue
                    res.instances += 1
                    role = re.sub(r"^k", "", pname)
                    twins = [a for a in aparams if a.endswith(role)]
                    missing = [n for n in [pname] + twins[:1] if n not in arg]
                    if not twins:
                        raise AnalysisError(f"{short}::{alias}: no alias parameter for role {role}")
                    if missing:
                        res.add(f"{c['file']}|{short}::{alias}|{pname}", f"{short}::{alias}: the {role.lower()} of the sub-buffer is "
                                f"computed as `{' '.join(arg)}`, which does not depend on {', '.join(missing)}: the static "
                                f"{role.lower()} claimed for a sub-buffer must combine the parent's {pname} with the relative "
                                f"{twins[0]}; a wrong claim selects an aligned MemoryAccessor for an unaligned address",
                                c["file"], line, f"{short}::{alias}")
                    elif len(res.samples) < 4:
                        res.samples.append(f"{short}::{alias} arg for {pname}: {' '.join(arg)}")
    if res.instances == 0:
        raise AnalysisError("no self-typed sub-buffer alias (ContiguousBuffer::OffsetStorageType) found")
    res.analysed = [MEM]
    return res


def clamp(facts: CppFacts):
    """R-CLAMP (C04): a sub-buffer handed out by GetOffsetStorage(offset, size) of a pointer-based buffer never
    extends past its parent: the size given to the result depends on the parent's `size_` (it is clamped), and the
    unsigned difference `size_ - offset` is only evaluated in the arm of a comparison between `size_` and `offset`
    (no wrap-around when offset lies past the end)."""
    res = RuleResult("R-CLAMP")
    for m in facts.methods:
        if m.name != "GetOffsetStorage" or not re.search(r"\bbytes_\s*\+", m.body):
            continue
        short = m.cls.rsplit("::", 1)[-1]
        pnames = [p[1] for p in m.params]
        if len(pnames) != 2:
            raise AnalysisError(f"{short}::GetOffsetStorage: expected (offset, size), got {pnames}")
        off, size = pnames
        res.instances += 1
        # the braced initialiser that carries `bytes_ + offset`
        mm = re.search(r"\{\s*bytes_\s*\+\s*" + re.escape(off) + r"\s*,(.*?)\}\s*;", m.body, re.S)
        if not mm:
            res.add(f"{m.file}|{short}::GetOffsetStorage|shape", "the sub-buffer is not constructed as {bytes_ + offset, <size>}",
                    m.file, m.line, f"{short}::GetOffsetStorage")
            continue
        size_expr = " ".join(tokens(mm.group(1)))
        res.instances += 3
        # is the whole initialiser the else-arm of `<cond> ? <null buffer> : {...}` with `size_ < offset` among the
        # disjuncts of <cond>?  Then neither the pointer nor the difference is evaluated for an offset past the end.
        before = " ".join(tokens(m.body[:mm.start()]))
        rm = re.search(r"return\s+(.*?)\?\s*\w+\s*\{\s*nullptr\s*\}\s*:\s*\w+\s*$", before)
        outer_guard = False
        if rm:
            disj = [d.strip() for d in rm.group(1).split("||")]
            outer_guard = any(re.fullmatch(r"size_\s*<\s*" + re.escape(off) + r"|" + re.escape(off) + r"\s*>\s*size_", d) for d in disj)
        if not outer_guard:
            res.add(f"{m.file}|{short}::GetOffsetStorage|oob-pointer", f"`bytes_ + {off}` is formed even when {off} lies past the end of "
                    "the buffer (only the size is clamped): undefined behaviour, and a wrapped pointer for offsets computed from the "
                    f"data; the null-buffer arm must also be taken when `size_ < {off}`", m.file, m.line, f"{short}::GetOffsetStorage")
        if not re.search(r"\bsize_\b", size_expr):
            res.add(f"{m.file}|{short}::GetOffsetStorage|unclamped", f"the sub-buffer's size is `{size_expr}`, which does not depend "
                    "on the parent's size_: a field that extends past the end of the buffer gets a view larger than the memory "
                    "behind it (out-of-bounds reads pass IsComplete())", m.file, m.line, f"{short}::GetOffsetStorage")
            continue
        if re.search(r"\bsize_\s*-\s*" + re.escape(off) + r"\b", size_expr):
            guard = re.search(r"(\bsize_\s*<\s*" + re.escape(off) + r"\b|\b" + re.escape(off) + r"\s*>\s*size_\b)\s*\?\s*0\s*:", size_expr) \
                or re.search(r"(\bsize_\s*>=\s*" + re.escape(off) + r"\b|\b" + re.escape(off) + r"\s*<=\s*size_\b)\s*\?", size_expr)
            if not guard and not outer_guard:
                res.add(f"{m.file}|{short}::GetOffsetStorage|underflow", f"`size_ - {off}` in `{size_expr}` is not the arm of a "
                        f"comparison between size_ and {off}: for an offset past the end the unsigned difference wraps and the "
                        "sub-buffer claims almost the whole address space", m.file, m.line, f"{short}::GetOffsetStorage")
        if not re.search(r"\b(min)\b", size_expr) and not re.search(r"\b" + re.escape(size) + r"\s*<", size_expr):
            res.add(f"{m.file}|{short}::GetOffsetStorage|nomin", f"the sub-buffer's size `{size_expr}` is not the smaller of the "
                    f"requested `{size}` and what is left of the parent", m.file, m.line, f"{short}::GetOffsetStorage")
        if len(res.samples) < 2:
            res.samples.append(f"{short}::GetOffsetStorage size: {size_expr}")
    if res.instances == 0:
        raise AnalysisError("no pointer-based GetOffsetStorage found")
    res.analysed = [MEM]
    return res


def arrayelem(facts: CppFacts):
    """R-ARRAYELEM (C01/C04): element i of an array view is the kElementSize units starting at kElementSize * i.
    In both element constructors the storage is `GetOffsetStorage<kElementSize, 0>(<offset>, <size>)` with offset the
    product of exactly kElementSize and the index and size kElementSize; the checked one hands out a null storage when
    `index >= size`; `at()` passes ElementCount() as that size; ElementCount() is the buffer size divided by
    kElementSize and Ok() requires the remainder to be zero."""
    res = RuleResult("R-ARRAYELEM")
    ARR = "runtime/cpp/emboss_array_view.h"
    ctors = [m for m in facts.methods if m.cls.endswith("IndexOperatorHelper") and "GetOffsetStorage" in m.body]
    if len(ctors) < 2:
        raise AnalysisError("array view: element constructors not found")
    for m in ctors:
        body = " ".join(tokens(m.body))
        res.instances += 1
        mm = re.search(r"GetOffsetStorage < (\w+) , (\w+) > \( (.*?) , (\w+) \) \)", body)
        if not mm:
            res.add(f"{m.file}|{m.name}|shape", f"{m.name}: element storage is not GetOffsetStorage<kElementSize, 0>(offset, size)", m.file, m.line, m.name)
            continue
        align, aoff, offset, size = mm.groups()
        pnames = [p[1] for p in m.params]
        index = next((p for p in pnames if p == "index"), None)
        factors = sorted(offset.split(" * ")) if " * " in offset and "+" not in offset and "-" not in offset else None
        if factors != sorted(["kElementSize", index or "index"]):
            res.add(f"{m.file}|{m.name}|offset", f"{m.name}: element {index} is placed at `{offset}`; it starts kElementSize * {index} units "
                    "into the array", m.file, m.line, m.name)
        if size != "kElementSize":
            res.add(f"{m.file}|{m.name}|size", f"{m.name}: element storage has size `{size}`, not kElementSize", m.file, m.line, m.name)
        if align != "kElementSize" or aoff != "0":
            res.add(f"{m.file}|{m.name}|alignment", f"{m.name}: element alignment claim <{align}, {aoff}> is not <kElementSize, 0>", m.file, m.line, m.name)
        if m.name == "ConstructElement":
            res.instances += 1
            lim = next((p for p in pnames if p == "size"), "size")
            if not re.search(rf"\b{index} >= {lim}\b|\b{lim} <= {index}\b", body) or "nullptr" not in body:
                res.add(f"{m.file}|{m.name}|bounds", f"{m.name}: no null storage for `{index} >= {lim}`: at() past the end yields a view "
                        "of memory behind the array", m.file, m.line, m.name)
    by = {m.name: m for m in facts.methods if m.cls == "GenericArrayView"}
    for need in ("at", "ElementCount", "Ok"):
        if need not in by:
            raise AnalysisError(f"GenericArrayView::{need} vanished")
    res.instances += 3
    if "ElementCount ( )" not in " ".join(tokens(by["at"].body)):
        res.add(f"{ARR}|at|limit", "at() does not pass ElementCount() as the limit", ARR, by["at"].line, "at")
    ec = " ".join(tokens(by["ElementCount"].body))
    if not re.search(r"return SizeOfBuffer \( \) / kElementSize ;", ec):
        res.add(f"{ARR}|ElementCount|quotient", f"ElementCount() is `{ec}`, not SizeOfBuffer() / kElementSize", ARR, by["ElementCount"].line, "ElementCount")
    okb = " ".join(tokens(by["Ok"].body))
    if not re.search(r"SizeOfBuffer \( \) % kElementSize != 0 \) return false", okb):
        res.add(f"{ARR}|Ok|remainder", "Ok() no longer rejects a buffer whose size is not a multiple of the element size", ARR, by["Ok"].line, "Ok")
    res.samples = ["element i at kElementSize * i, size kElementSize, null storage past the end"]
    res.analysed = [ARR]
    return res


def packforward(facts: CppFacts):
    """R-PACKFORWARD (C07/C20): GenericArrayView carries the runtime-parameter types of its elements as a trailing
    template parameter pack.  A method or free function that names "another GenericArrayView with a generic element
    type" as a parameter must pass that pack on; without it the parameter type matches no array of parameterised
    structures and Equals()/WriteToTextStream() of any structure containing one does not compile.  Overloads for
    prelude scalar element views (UIntView/IntView arrays) have no parameters by construction and are exempt."""
    res = RuleResult("R-PACKFORWARD")
    ARR = "runtime/cpp/emboss_array_view.h"
    src = re.sub(r"//[^\n]*", "", facts.repo.read(ARR))
    cm = re.search(r"template\s*<([^;{}]*?)>\s*class\s+GenericArrayView\b", src, re.S)
    if not cm:
        raise AnalysisError("GenericArrayView: class template header not found")
    cparams = [a[-1] for a in _split_args([t for t in tokens(cm.group(1)) if t != "/**/"]) if a]
    pack = next((p for p in cparams if "..." in " ".join(tokens(cm.group(1))) and p == cparams[-1]), None)
    if not re.search(r"typename\s*\.\.\.\s*" + re.escape(cparams[-1]), cm.group(1)):
        raise AnalysisError("GenericArrayView: trailing parameter pack not found")
    pack = cparams[-1]
    for mm in re.finditer(r"const\s+GenericArrayView\s*<", src):
        i = mm.end()
        depth = 1
        j = i
        while j < len(src) and depth:
            if src[j] == "<":
                depth += 1
            elif src[j] == ">":
                depth -= 1
            j += 1
        args = _split_args(tokens(src[i:j - 1]))
        if not args:
            continue
        first = " ".join(args[0])
        if "::" in first or "View <" in first:
            continue  # a concrete prelude element view
        line = src.count("\n", 0, mm.start()) + 1
        res.instances += 1
        last = " ".join(args[-1]).replace(" ", "")
        if last != f"{pack}...":
            res.add(f"{ARR}|GenericArrayView<{first},...>|pack|#{res.instances}", f"a parameter of type GenericArrayView<{first}, ...> "
                    f"(line {line}) does not pass on `{pack}...`: the declaration does not match arrays of parameterised structures, so "
                    "Equals()/text output of a structure containing one fails to compile", ARR, line, "GenericArrayView")
    if res.instances < 3:
        raise AnalysisError(f"only {res.instances} generic GenericArrayView parameters found")
    res.samples = [f"{res.instances} generic array parameters forward {pack}..."]
    res.analysed = [ARR]
    return res


def elemloops(facts: CppFacts):
    """R-ELEMLOOP (C20/C01/C06): every loop of the runtime that walks the elements of an array view
    (`... < ElementCount()` / `< n` with n = ElementCount()) starts at 0, stops below the count and advances by one.
    A stride in units of bytes (`i += kElementSize`) or a start at 1 visits only some elements: Equals(), Ok() and the
    text writer then ignore the others."""
    res = RuleResult("R-ELEMLOOP")
    pat = re.compile(r"for\s*\(\s*([^;]*?);\s*([^;]*?);\s*([^)]*?)\)\s*\{", re.S)
    for m in facts.methods + facts.functions:
        body = re.sub(r"//[^\n]*", "", m.body)
        for init, cond, step in pat.findall(body):
            bound_ok = "ElementCount" in cond or ("ElementCount" in init and re.search(r"<\s*n\b", cond))
            if not bound_ok:
                continue
            res.instances += 1
            vm = re.search(r"(\w+)\s*=\s*0\b", init)
            var = vm.group(1) if vm else None
            short = m.cls.rsplit("::", 1)[-1] if getattr(m, "cls", "") else ""
            where = f"{short}::{m.name}" if short else m.name
            if var is None:
                res.add(f"{m.file}|{where}|start", f"{where}: element loop `for ({init.strip()}; ...)` does not start at element 0", m.file, m.line, where)
                continue
            if not re.fullmatch(rf"\s*(\+\+\s*{var}|{var}\s*\+\+|{var}\s*\+=\s*1)\s*", step):
                res.add(f"{m.file}|{where}|stride", f"{where}: element loop advances with `{step.strip()}`; elements are numbered 0..count-1, so "
                        "any other stride skips elements (a stride of kElementSize compares only every kElementSize-th element)",
                        m.file, m.line, where)
            if not re.search(rf"\b{var}\s*<\s*", cond):
                res.add(f"{m.file}|{where}|bound", f"{where}: element loop condition `{cond.strip()}` is not `{var} < count`", m.file, m.line, where)
    if res.instances < 5:
        raise AnalysisError(f"only {res.instances} element loops found")
    res.samples = [f"{res.instances} element loops: start 0, `<` count, unit stride"]
    res.analysed = ["runtime/cpp/emboss_array_view.h", "runtime/cpp/emboss_text_util.h"]
    return res


def subwindow(facts: CppFacts):
    """R-SUBWINDOW (C01/C02): GetOffsetStorage(offset, size) of a bit block hands out the sub-window [offset, offset+size) in
    the block's *own* coordinates.  Its ok flag must therefore be `<own ok> && offset + size <= <own extent>` -- exactly the
    two parameters on the left, the block's own length (`size_`, or the kBufferSizeInBits constant) on the right -- and a
    window class (one with `offset_`) passes `offset_ + offset` on as the absolute start.  Counting `offset_` in the bound
    as well (it is already inside size_'s frame) rejects sub-fields that end in the last offset_ bits; dropping a term
    accepts sub-fields that stick out."""
    res = RuleResult("R-SUBWINDOW")
    for m in facts.methods:
        if m.name != "GetOffsetStorage":
            continue
        short = m.cls.rsplit("::", 1)[-1]
        if short not in ("OffsetBitBlock", "BitBlock"):
            continue
        body = " ".join(re.sub(r"//[^\n]*", "", m.body).split())
        res.instances += 1
        key = f"{m.file}|{short}::GetOffsetStorage"
        params = [(p[1] if isinstance(p, (tuple, list)) else str(p).split()[-1].strip("&*")) for p in (getattr(m, "params", None) or [])]
        if len(params) < 2:
            params = ["offset", "size"]
        po, ps = params[0], params[1]
        cm = re.search(r"([\w\s+()]+?)\s*<=\s*([\w:]+)", body)
        if not cm:
            res.add(key + "|no-bound", f"{short}::GetOffsetStorage hands out sub-storage without an `offset + size <= extent` bound",
                    m.file, m.line, f"{short}::GetOffsetStorage")
            continue
        lhs = cm.group(1)
        # keep only the sum right of the last `&&`
        lhs = lhs.split("&&")[-1]
        terms = sorted(t.strip() for t in lhs.replace("(", " ").replace(")", " ").split("+") if t.strip())
        rhs = cm.group(2)
        if terms != sorted([po, ps]):
            res.add(key + "|bound-lhs", f"{short}::GetOffsetStorage bounds `{' + '.join(terms)}` (expected `{po} + {ps}`, the sub-window "
                    f"in the block's own coordinates) by `{rhs}`", m.file, m.line, f"{short}::GetOffsetStorage")
        want_rhs = "size_" if short == "OffsetBitBlock" else None
        if (want_rhs and rhs != want_rhs) or (not want_rhs and not re.fullmatch(r"k\w*SizeInBits", rhs)):
            res.add(key + "|bound-rhs", f"{short}::GetOffsetStorage compares the sub-window's end with `{rhs}`, not the block's own "
                    "length", m.file, m.line, f"{short}::GetOffsetStorage")
        if short == "OffsetBitBlock" and not re.search(r"\boffset_\s*\+\s*" + re.escape(po) + r"\b|\b" + re.escape(po) + r"\s*\+\s*offset_\b", body):
            res.add(key + "|start", "OffsetBitBlock::GetOffsetStorage does not pass `offset_ + offset` as the absolute start of the "
                    "sub-window", m.file, m.line, "OffsetBitBlock::GetOffsetStorage")
        if not re.search(r"(ok_|Ok\(\))\s*&&", body):
            res.add(key + "|ok", f"{short}::GetOffsetStorage does not propagate its own ok state", m.file, m.line, f"{short}::GetOffsetStorage")
    if res.instances < 2 and not res.findings:
        raise AnalysisError(f"only {res.instances} bit-block GetOffsetStorage methods found")
    res.analysed = [MEM]
    return res


def bitcopy(facts: CppFacts):
    """R-BITCOPY (C20): copying `size` bits into a bit block is a merge: the low `size` bits come from the source, every bit
    of the destination block above them keeps its value ("bits past that size are untouched").  In the copy methods of
    BitBlock and OffsetBitBlock the value handed to (Unchecked)WriteUInt must be `(own & ~mask) | (other & mask)` with
    mask = the low `size` bits: an own (Unchecked)ReadUInt() under `~`-mask, the other block's read under the mask, joined
    by `|`.  WriteUInt's own read-modify-write only protects bits *outside* the block."""
    res = RuleResult("R-BITCOPY")
    for m in facts.methods:
        short = m.cls.rsplit("::", 1)[-1]
        if short not in ("BitBlock", "OffsetBitBlock") or m.name not in ("UncheckedCopyFrom", "TryToCopyFrom"):
            continue
        body = " ".join(re.sub(r"//[^\n]*", "", m.body).split())
        wm = re.search(r"(?<![\w.])(Unchecked)?WriteUInt\s*\(", body)
        res.instances += 1
        key = f"{m.file}|{short}::{m.name}"
        if not wm:
            res.add(key + "|no-write", f"{short}::{m.name} does not write", m.file, m.line, f"{short}::{m.name}")
            continue
        k0 = wm.end() - 1
        d, k1 = 0, k0
        while k1 < len(body):
            if body[k1] == "(":
                d += 1
            elif body[k1] == ")":
                d -= 1
                if d == 0:
                    break
            k1 += 1
        arg = body[k0 + 1:k1]
        own = re.search(r"(?<![\w.])(Unchecked)?ReadUInt\s*\(\s*\)\s*&\s*(static_cast<\s*ValueType\s*>\s*\(\s*)?~\s*CopyMask\s*\(\s*size\s*\)", arg)
        src = re.search(r"other\s*\.\s*(Unchecked)?ReadUInt\s*\(\s*\)\s*\)?\s*&\s*CopyMask\s*\(\s*size\s*\)", arg)
        if not own:
            res.add(key + "|own-bits", f"{short}::{m.name} writes `{arg[:90]}`: the destination's own bits above `size` are not merged in "
                    "(`own & ~mask`), so a copy of a value narrower than the block zeroes the rest of the block", m.file, m.line,
                    f"{short}::{m.name}")
        if not src:
            res.add(key + "|source-bits", f"{short}::{m.name} does not take `other.ReadUInt() & mask(size)`", m.file, m.line,
                    f"{short}::{m.name}")
        if own and src and "|" not in arg:
            res.add(key + "|join", f"{short}::{m.name}: the two parts are not joined by `|`", m.file, m.line, f"{short}::{m.name}")
    if res.instances < 4 and not res.findings:
        raise AnalysisError(f"only {res.instances} bit-block copy methods found")
    res.analysed = [MEM]
    return res


def aligncheck(repo):
    """R-ALIGNCHECK (C04): `ContiguousBuffer<Byte, kAlignment, kOffset>` promises `uintptr_t(bytes_) % kAlignment ==
    kOffset` and every constructor that takes outside memory DCHECKs it.  The check has to be made on the byte pointer
    the buffer keeps: the constructor from a container (`T *container`, bytes taken from `container->data()`) tested the
    address of the container object, so correctly aligned bytes owned by a `std::string` at another address aborted at
    view construction (and misaligned bytes passed).  For every constructor whose body contains the alignment DCHECK,
    its first argument is `bytes_`, or the very parameter that `bytes_` is initialised from by a plain cast."""
    from ..cppast import tokens
    res = RuleResult("R-ALIGNCHECK")
    rel = "runtime/cpp/emboss_memory_util.h"
    text = re.sub(r"//[^\n]*", "", repo.read(rel))
    for mm in re.finditer(r"explicit\s+ContiguousBuffer\s*\(([^)]*)\)\s*:\s*bytes_\s*\{(.*?)\}\s*,\s*size_\s*\{(.*?)\}\s*\{(.*?)\n  \}", text, re.S):
        params, init, _size, body = mm.groups()
        d = re.search(r"EMBOSS_DCHECK_POINTER_ALIGNMENT\s*\(\s*([^,]+),", body)
        if not d:
            continue
        res.instances += 1
        line = text[:mm.start()].count("\n") + 1
        arg = d.group(1).strip()
        pnames = [p.strip().split()[-1].lstrip("*&") for p in params.split(",") if p.strip()]
        # bytes_{reinterpret_cast<Byte *>(X)}: X is the pointer kept
        im = re.fullmatch(r"\s*(?:reinterpret_cast|static_cast)\s*<[^>]*>\s*\(\s*(.*?)\s*\)\s*", init, re.S)
        kept = im.group(1) if im else init.strip()
        if arg == "bytes_" or (arg == kept and arg in pnames):
            continue
        res.add(f"{rel}|ContiguousBuffer({' '.join(tokens(params))})|alignment-operand",
                f"ContiguousBuffer({' '.join(params.split())}) keeps `{kept}` as its byte pointer but checks the alignment of `{arg}`: "
                "aligned bytes owned by a container object at a differently aligned address abort in EMBOSS_DCHECK_POINTER_ALIGNMENT "
                "when the view is constructed, and misaligned bytes are not noticed", rel, line, "ContiguousBuffer")
    if res.instances < 2:
        raise AnalysisError(f"only {res.instances} ContiguousBuffer constructors with an alignment check recognised")
    res.analysed = [rel]
    return res


def arrayok(facts: CppFacts):
    """R-ARRAYOK (C01/C04): "an array is Ok() only if every element is Ok()" (cpp-reference).  Scalar elements can be
    not-Ok too (a Bcd digit above 9), so GenericArrayView::Ok() has no success exit before its loop over all elements:
    every `return true` of the method follows a `for (i = 0; i < ElementCount(); ++i)` whose body returns false when
    `(*this)[i].Ok()` (or `at(i).Ok()`) fails, and the loop starts at 0 and is bounded by ElementCount()."""
    res = RuleResult("R-ARRAYOK")
    ms = [m for m in facts.by_class("GenericArrayView") if m.name == "Ok"]
    if not ms:
        raise AnalysisError("GenericArrayView::Ok not found")
    m = ms[0]
    body = re.sub(r"//[^\n]*", "", m.body)
    res.instances = 2
    lp = re.search(r"for\s*\(\s*(?:::std::)?size_t\s+(\w+)\s*=\s*0\s*;\s*\1\s*<\s*ElementCount\s*\(\s*\)\s*;\s*\+\+\1\s*\)\s*\{(.*?)\}", body, re.S)
    if not lp or not re.search(r"if\s*\(\s*!\s*(?:\(\s*\*this\s*\)\s*\[\s*" + (lp.group(1) if lp else "i") + r"\s*\]|at\s*\(\s*\w+\s*\))\s*\.\s*Ok\s*\(\s*\)\s*\)\s*return\s+false", lp.group(2) if lp else ""):
        res.add(f"{m.file}|GenericArrayView::Ok|loop", "GenericArrayView::Ok() no longer tests every element from 0 to ElementCount()",
                m.file, m.line, "GenericArrayView::Ok")
    else:
        early = [x.start() for x in re.finditer(r"return\s+true\s*;", body) if x.start() < lp.start()]
        if early:
            res.add(f"{m.file}|GenericArrayView::Ok|early-success", "GenericArrayView::Ok() returns true before its per-element loop: an array of "
                    "scalars whose elements can be invalid (`Bcd:8[4]` holding the nibble 0xA) is reported Ok(), and so is the "
                    "enclosing structure, while `arr[i].Ok()` is false", m.file, m.line, "GenericArrayView::Ok")
    res.analysed = [m.file]
    return res
