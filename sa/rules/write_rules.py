"""C03 rules: R-INVERSE (write_inference builds the algebraic inverse), R-VWRITE (virtual write template)."""
from __future__ import annotations

import ast
import re

from ..pyfacts import Repo, dotted_name, walk_no_nested_funcs
from ..report import AnalysisError, RuleResult
from ..templates import TEMPLATES
from . import dispatch as D

WI = "compiler/front_end/write_inference.py"
FM = D.FM


def _find_inverter(repo):
    m = repo.mod(WI)
    for f in m.top_funcs():
        for n in walk_no_nested_funcs(f.node):
            if isinstance(n, ast.For) and isinstance(n.target, ast.Name):
                src = m.seg(n)
                if "FunctionMapping" in src and "ir_data.Function(" in src:
                    return m, f, n
    raise AnalysisError("write_inference: the inversion loop was not found")


def _classify_arg(node, idx_name, idx_val, result_name, cursor=None):
    """-> 'v' (the running result), 'o' (the other operand), 'x' (the operand being solved), or None.
    `cursor` is the variable that walks down the expression (re-bound to `<cursor>.function.args[index]` each step): the
    operands of the current level are *its* args; the args of any other expression (the outermost one) are not."""
    if isinstance(node, ast.Name) and node.id == result_name:
        return "v"
    if isinstance(node, ast.Subscript) and ast.unparse(node.value).endswith(".function.args"):
        if cursor is not None and ast.unparse(node.value) != f"{cursor}.function.args":
            return None
        s = node.slice
        from .tokenizer_rules import linear
        lf = linear(s, {"index": lambda n: isinstance(n, ast.Name) and n.id == idx_name})
        if lf is None:
            return None
        val = lf.get(1, 0) + lf.get("index", 0) * idx_val
        if val == idx_val:
            return "x"
        if val == 1 - idx_val:
            return "o"
    return None


def inverse(repo):
    res = RuleResult("R-INVERSE")
    m, f, loop = _find_inverter(repo)
    idx = loop.target.id
    # name of the running result: the variable assigned from ir_data.Expression(function=...) in the loop
    result_name = None
    for n in ast.walk(loop):
        if isinstance(n, ast.Assign) and isinstance(n.value, ast.Call) and (dotted_name(n.value.func) or "").endswith("Expression") \
                and isinstance(n.targets[0], ast.Name):
            result_name = n.targets[0].id
    if result_name is None:
        raise AnalysisError("write_inference: inverse construction not found")

    cursor = None
    for n in ast.walk(loop):
        if isinstance(n, ast.Assign) and isinstance(n.targets[0], ast.Name) and isinstance(n.value, ast.Subscript) \
                and ast.unparse(n.value.value) == f"{n.targets[0].id}.function.args":
            cursor = n.targets[0].id
    if cursor is None:
        raise AnalysisError("write_inference: the variable walking down the expression was not found")
    constructions = []  # (forward op, index value, inverse op, [arg classes], line)

    def walk(body, fwd, positions):
        for st in body:
            if isinstance(st, ast.If):
                tests, bodies, orelse = D._chain_branches(st)
                remaining = list(positions)
                for t, b in zip(tests, bodies):
                    p = D.parse_test(t)
                    if p is not None and p.kind == "fm" and len(p.members) == 1:
                        walk(b, next(iter(p.members)), positions)
                        continue
                    # index test
                    if isinstance(t, ast.Compare) and isinstance(t.left, ast.Name) and t.left.id == idx \
                            and isinstance(t.comparators[0], ast.Constant) and isinstance(t.ops[0], (ast.Eq, ast.NotEq)):
                        k = t.comparators[0].value
                        sel = [q for q in remaining if (q == k) == isinstance(t.ops[0], ast.Eq)]
                        walk(b, fwd, sel)
                        remaining = [q for q in remaining if q not in sel]
                        continue
                    walk(b, fwd, positions)
                if orelse:
                    walk(orelse, fwd, remaining)
            elif isinstance(st, ast.Assign) and isinstance(st.targets[0], ast.Name) and st.targets[0].id == result_name \
                    and isinstance(st.value, ast.Call):
                fn = None
                for k in st.value.keywords:
                    if k.arg == "function" and isinstance(k.value, ast.Call):
                        fn = k.value
                if fn is None:
                    continue
                inv = args = None
                for k in fn.keywords:
                    if k.arg == "function":
                        dn = dotted_name(k.value) or ""
                        inv = dn[len(FM):] if dn.startswith(FM) else None
                    if k.arg == "args" and isinstance(k.value, (ast.List, ast.Tuple)):
                        args = k.value.elts
                if inv is None or args is None or len(args) != 2:
                    res.add(f"{WI}|{f.name}|opaque", "inverse construction is not Function(function=<member>, args=[a, b])",
                            WI, st.lineno, f.name)
                    continue
                for pos in positions:
                    cls = [_classify_arg(a, idx, pos, result_name, cursor) for a in args]
                    constructions.append((fwd, pos, inv, cls, st.lineno))

    walk(loop.body, None, [0, 1])
    if len(constructions) < 3:
        raise AnalysisError(f"write_inference: only {len(constructions)} inverse constructions interpreted")
    for fwd, pos, inv, cls, line in constructions:
        res.instances += 1
        if fwd not in ("ADDITION", "SUBTRACTION") or inv not in ("ADDITION", "SUBTRACTION") or None in cls or "x" in cls:
            res.add(f"{WI}|{f.name}|{fwd}|{pos}", f"inverse of {fwd} (solving argument {pos}) is built from {cls} with {inv}: not "
                    "expressible over {value, other operand}", WI, line, f.name)
            continue
        sign = 1 if inv == "ADDITION" else -1
        coef = {"v": 0, "o": 0}
        coef[cls[0]] += 1
        coef[cls[1]] += sign
        # forward equation: ADD: x + o = v ; SUB pos 0: x - o = v ; SUB pos 1: o - x = v
        if fwd == "ADDITION":
            want = {"v": 1, "o": -1}
        elif pos == 0:
            want = {"v": 1, "o": 1}
        else:
            want = {"v": -1, "o": 1}
        if coef != want:
            res.add(f"{WI}|{f.name}|{fwd}|{pos}",
                    f"writing through `{'x + c' if fwd == 'ADDITION' else ('x - c' if pos == 0 else 'c - x')}` stores "
                    f"{coef['v']:+d}*value {coef['o']:+d}*c, the algebraic inverse is {want['v']:+d}*value {want['o']:+d}*c: "
                    "the virtual field would not read back the value written", WI, line, f.name)
        elif len(res.samples) < 3:
            res.samples.append(f"{fwd} solving arg {pos}: {inv}({cls[0]}, {cls[1]})")
    # non-invertible operators must bail out
    src = m.seg(loop)
    res.instances += 1
    if not re.search(r"else:\s*\n\s*return None", src):
        res.add(f"{WI}|{f.name}|fallback", "operators other than + and - no longer make the expression non-invertible",
                WI, loop.lineno, f.name)
    res.analysed = [WI]
    return res


def vwrite(repo, templates):
    res = RuleResult("R-VWRITE")
    name = "structure_single_virtual_field_write_methods"
    if name not in templates:
        raise AnalysisError(f"template {name} vanished")
    text = templates[name]["text"]
    res.instances = 4

    def body_of(meth):
        m = re.search(rf"\b{meth}\s*\([^)]*\)\s*(?:const\s*)?\{{", text)
        if not m:
            return None
        i = m.end() - 1
        depth = 0
        j = i
        clean = re.sub(r"\$\{(\w+)\}", lambda mm: "V_" + mm.group(1) + " " * (len(mm.group(0)) - len(mm.group(1)) - 2), text)
        while j < len(clean):
            if clean[j] == "{":
                depth += 1
            elif clean[j] == "}":
                depth -= 1
                if depth == 0:
                    break
            j += 1
        return clean[i:j + 1]

    t = body_of("TryToWrite")
    if t is None:
        res.add(f"{name}|TryToWrite", "virtual write template has no TryToWrite", TEMPLATES, templates[name]["line"])
    else:
        g = t.find("CouldWriteValue(")
        w = t.find(".TryToWrite(")
        if g < 0 or w < 0 or g > w or not re.search(r"if\s*\(\s*!\s*CouldWriteValue\([^)]*\)\s*\)\s*return\s+false", t):
            res.add(f"{name}|TryToWrite|guard", "virtual TryToWrite forwards to the destination before (or without) "
                    "`if (!CouldWriteValue(v)) return false`", TEMPLATES, templates[name]["line"])
        if "V_destination" not in t or "maybe_new_value.ValueOrDefault()" not in t:
            res.add(f"{name}|TryToWrite|value", "virtual TryToWrite does not forward the transformed value to the destination",
                    TEMPLATES, templates[name]["line"])
    c = body_of("CouldWriteValue")
    if c is None:
        res.add(f"{name}|CouldWriteValue", "virtual write template has no CouldWriteValue", TEMPLATES, templates[name]["line"])
    else:
        for needle, what in (("ValueIsOk(", "the field's own [requires]"), (".Known()", "the transformed value being known"),
                             (".CouldWriteValue(", "the destination's range")):
            if needle not in c:
                res.add(f"{name}|CouldWriteValue|{what}", f"virtual CouldWriteValue no longer tests {what}", TEMPLATES, templates[name]["line"])
        # range: the inverse transform is computed in types sized for the field's own range, so a value outside it must be
        # refused before the transform is evaluated -- in CouldWriteValue and (by calling it first) in TryToWrite
        res.instances += 2
        rg = re.search(r"if\s*\(\s*V_value_out_of_range\s*\)\s*return\s+false", c)
        tf = c.find("V_transform")
        if not rg or (tf >= 0 and rg.start() > tf):
            res.add(f"{name}|CouldWriteValue|range", "virtual CouldWriteValue evaluates the inverse transform without first rejecting "
                    "values outside the field's static range: `let v = x + 1` over UInt:32 accepts 0 (stores 0xFFFFFFFF) and "
                    "CouldWriteValue(INT64_MIN) overflows", TEMPLATES, templates[name]["line"])
        if t is not None:
            g2, t2 = t.find("CouldWriteValue("), t.find("V_transform")
            if g2 < 0 or (t2 >= 0 and t2 < g2):
                res.add(f"{name}|TryToWrite|transform-first", "virtual TryToWrite evaluates the inverse transform before CouldWriteValue has "
                        "accepted the value", TEMPLATES, templates[name]["line"])
        # presence: a conditional virtual field (`if c: let v = x - 40`) that does not exist must refuse writes, and the test
        # must come before the destination is consulted
        res.instances += 1
        pm = re.search(r"if\s*\(\s*!\s*view_\.has_V_name\s*\(\)\.ValueOr\(false\)\s*\)\s*return\s+false", c)
        fw = c.find(".CouldWriteValue(")
        if not pm or (fw >= 0 and pm.start() > fw):
            res.add(f"{name}|CouldWriteValue|presence", "virtual CouldWriteValue does not start with `if (!view_.has_<name>().ValueOr("
                    "false)) return false`: a write-through virtual field under a false condition accepts writes and changes the "
                    "destination field although it does not exist", TEMPLATES, templates[name]["line"])
    u = body_of("UncheckedWrite")
    if u is not None and "V_transform" not in u:
        res.add(f"{name}|UncheckedWrite", "virtual UncheckedWrite does not apply the transform", TEMPLATES, templates[name]["line"])
    wr = body_of("Write")
    if wr is not None and not ("TryToWrite(" in wr and "EMBOSS_CHECK(" in wr):
        res.add(f"{name}|Write", "virtual Write is not TryToWrite + EMBOSS_CHECK", TEMPLATES, templates[name]["line"])
    res.samples = [" ".join((t or "").split())[:160]]
    res.analysed = [TEMPLATES]
    return res


def control(repo):
    """Overlay: the first inverse construction that uses SUBTRACTION is turned into an ADDITION (AST position, not a text
    fragment, so the control keeps working when the operands are spelled differently)."""
    src = repo.read(WI)
    m, f, loop = _find_inverter(repo)
    target = None
    for n in ast.walk(loop):
        if isinstance(n, ast.keyword) and n.arg == "function" and (dotted_name(n.value) or "").endswith("FunctionMapping.SUBTRACTION"):
            if target is None or (n.value.lineno, n.value.col_offset) < (target.lineno, target.col_offset):
                target = n.value
    if target is None:
        return False
    lines = src.split("\n")
    ln = lines[target.lineno - 1]
    lines[target.lineno - 1] = ln[:target.col_offset] + ast.unparse(target).replace("SUBTRACTION", "ADDITION") + ln[target.end_col_offset:]
    r2 = Repo(repo.root, overlay={WI: "\n".join(lines)})
    return bool(inverse(r2).findings)


# ---------------------------------------------------------------------------------------------------------
# R-ALIASGUARD: a virtual field with its own [requires] is never written as a plain alias
def _always_leaves(stmts):
    if not stmts:
        return False
    last = stmts[-1]
    if isinstance(last, (ast.Return, ast.Raise)):
        return True
    if isinstance(last, ast.If):
        return bool(last.orelse) and _always_leaves(last.body) and _always_leaves(last.orelse)
    return False


def aliasguard(repo):
    """An alias write method forwards TryToWrite/CouldWriteValue to the aliased field, which knows nothing of the
    alias's own [requires].  So `write_method.alias` may be chosen only on paths where the field was found to
    have no [requires] attribute; otherwise values the alias forbids are accepted and written."""
    res = RuleResult("R-ALIASGUARD")
    m = repo.mod(WI)
    sites = []
    for f in m.top_funcs():
        for n in walk_no_nested_funcs(f.node):
            if isinstance(n, ast.Call) and isinstance(n.func, ast.Attribute) and n.func.attr == "CopyFrom" \
                    and ast.unparse(n.func.value).endswith("write_method.alias"):
                sites.append((f, n))
            if isinstance(n, ast.Assign) and any(ast.unparse(t).endswith("write_method.alias") for t in n.targets):
                sites.append((f, n))
    if not sites:
        raise AnalysisError("write_inference: no assignment of write_method.alias found")

    def is_requires_lookup(node):
        return isinstance(node, ast.Call) and (ast.unparse(node.func).endswith("get_attribute")) \
            and any(ast.unparse(a).endswith("REQUIRES") or (isinstance(a, ast.Constant) and a.value == "requires") for a in node.args)

    for f, site in sites:
        res.instances += 1
        req_names = set()
        for n in walk_no_nested_funcs(f.node):
            if isinstance(n, ast.Assign) and is_requires_lookup(n.value):
                req_names |= {t.id for t in n.targets if isinstance(t, ast.Name)}

        def says_present(t):
            """test is true whenever the field has a [requires]"""
            if isinstance(t, ast.BoolOp) and isinstance(t.op, ast.Or):
                return any(says_present(v) for v in t.values)
            if isinstance(t, ast.Compare) and len(t.ops) == 1 and isinstance(t.ops[0], ast.IsNot) \
                    and isinstance(t.comparators[0], ast.Constant) and t.comparators[0].value is None:
                l = t.left
                return (isinstance(l, ast.Name) and l.id in req_names) or is_requires_lookup(l)
            if isinstance(t, ast.Name) and t.id in req_names:
                return True
            return False

        def says_absent(t):
            """test is true only when the field has no [requires]"""
            if isinstance(t, ast.BoolOp) and isinstance(t.op, ast.And):
                return any(says_absent(v) for v in t.values)
            if isinstance(t, ast.Compare) and len(t.ops) == 1 and isinstance(t.ops[0], ast.Is) \
                    and isinstance(t.comparators[0], ast.Constant) and t.comparators[0].value is None:
                l = t.left
                return (isinstance(l, ast.Name) and l.id in req_names) or is_requires_lookup(l)
            if isinstance(t, ast.UnaryOp) and isinstance(t.op, ast.Not):
                return says_present(t.operand) and not isinstance(t.operand, ast.BoolOp)
            return False

        guarded = False
        node = site
        while node is not f.node and not guarded:
            parent = m.parent(node)
            if parent is None:
                break
            for field in ("body", "orelse"):
                block = getattr(parent, field, None)
                if isinstance(block, list) and node in block:
                    idx = block.index(node)
                    for prev in block[:idx]:
                        if isinstance(prev, ast.If) and says_present(prev.test) and _always_leaves(prev.body):
                            guarded = True
                    if isinstance(parent, ast.If):
                        if field == "body" and says_absent(parent.test):
                            guarded = True
                        if field == "orelse" and says_present(parent.test):
                            guarded = True
            node = parent
        if not guarded:
            res.add(f"{WI}|{f.name}|alias-requires", f"{f.name} makes a virtual field a plain alias (write_method.alias) on a path "
                    "that is not restricted to fields without their own [requires]: writes through such an alias are "
                    "forwarded to the aliased field and skip the alias's requirement", WI, site.lineno, f.name)
        else:
            res.samples.append(f"{f.name}: alias only after the [requires] lookup {sorted(req_names)} was tested")
    res.analysed = [WI]
    return res
