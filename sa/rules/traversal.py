"""Typed-traversal rules over fast_traverse_ir_top_down / fast_traverse_node_top_down sites.

R-TRAVPARAM  every required parameter of an action / incidental action is available on
             every IR path that reaches its invocation (product graph: IR containment
             graph x pattern progress, exact cut-set test).
R-ROOTONLY   an action that imposes a requirement on its own node, with a self-nesting last
             pattern type, must list that type in skip_descendants_of.
"""
from __future__ import annotations

import ast
import dataclasses

from ..irschema import Schema
from ..pyfacts import Func, Repo, attr_chain, call_name, dotted_name, func_params, walk_no_nested_funcs
from ..report import AnalysisError, RuleResult

TRAVERSE_IR = "compiler/util/traverse_ir.py"
TRAV_FUNCS = ("fast_traverse_ir_top_down", "fast_traverse_node_top_down")


@dataclasses.dataclass
class Site:
    module: object
    func: Func | None
    call: ast.Call
    kind: str  # "ir" | "node"
    pattern: list | None
    action: object  # Func | None
    action_expr: ast.AST
    incidental: dict  # type -> [Func|None]
    incidental_exprs: dict
    skip: set | None
    params: set | None
    root_types: set | None
    problems: list
    via: str = ""

    @property
    def where(self):
        return f"{self.module.rel}:{self.call.lineno}" + (f" (via {self.via})" if self.via else "")

    @property
    def key(self):
        fn = self.func.qualname if self.func else "<module>"
        pat = ",".join(self.pattern or ["?"])
        act = self.action.name if isinstance(self.action, Func) else ast.unparse(self.action_expr)
        return f"{self.module.rel}|{fn}|[{pat}]|{act}"


def _type_name(node):
    dn = dotted_name(node)
    if dn and dn.startswith("ir_data."):
        return dn.split(".", 1)[1]
    return None


def _type_collection(node):
    if isinstance(node, (ast.List, ast.Tuple, ast.Set)):
        out = [_type_name(e) for e in node.elts]
        if all(out):
            return out
    if isinstance(node, ast.Dict) and not node.keys:
        return []
    return None


def returned_keys(fnode):
    """(must_keys, may_keys): dict keys returned on every / some return path.
    A path that returns None (or falls off the end) contributes the empty set."""
    rets = []
    for n in walk_no_nested_funcs(fnode):
        if isinstance(n, ast.Return):
            rets.append(n)
    sets = []
    unknown = False
    for r in rets:
        v = r.value
        if v is None or (isinstance(v, ast.Constant) and v.value is None):
            sets.append(set())
        elif isinstance(v, ast.Dict) and all(isinstance(k, ast.Constant) for k in v.keys):
            sets.append({k.value for k in v.keys})
        else:
            unknown = True
            sets.append(set())
    # falling off the end
    falls = _can_fall_off(fnode.body)
    if falls or not rets:
        sets.append(set())
    must = set.intersection(*sets) if sets else set()
    may = set.union(*sets) if sets else set()
    return must, may, unknown


def _can_fall_off(body):
    """Conservative: can control reach the end of this statement list?"""
    if not body:
        return True
    last = body[-1]
    if isinstance(last, (ast.Return, ast.Raise)):
        return False
    if isinstance(last, ast.If):
        return _can_fall_off(last.body) or _can_fall_off(last.orelse)
    if isinstance(last, ast.Assert) and isinstance(last.test, ast.Constant) and last.test.value is False:
        return False
    return True


def collect_sites(repo: Repo, schema: Schema, modules=None):
    sites = []
    for m in (modules or repo.compile_path_modules()):
        if m.rel == TRAVERSE_IR:
            continue
        for node in ast.walk(m.tree):
            if not isinstance(node, ast.Call):
                continue
            cn = call_name(node) or ""
            base = cn.split(".")[-1]
            if base not in TRAV_FUNCS:
                continue
            r = repo.resolve(m, node.func)
            if not (isinstance(r, Func) and r.module.rel == TRAVERSE_IR):
                continue
            kind = "ir" if base == TRAV_FUNCS[0] else "node"
            site = _parse_site(repo, schema, m, node, kind)
            if site.problems and site.func is not None:
                expanded = _expand_through_callers(repo, schema, m, node, kind, site)
                if expanded:
                    sites.extend(expanded)
                    continue
            sites.append(site)
    return sites


class _Subst(ast.NodeTransformer):
    def __init__(self, binding):
        self.binding = binding

    def visit_Name(self, node):
        if isinstance(node.ctx, ast.Load) and node.id in self.binding:
            return self.binding[node.id]
        return node


def _expand_through_callers(repo, schema, m, call, kind, site):
    """The traversal arguments are parameters of the enclosing helper: instantiate the
    site once per caller of the helper, with the caller's argument expressions."""
    import copy
    helper = site.func
    pos, _, kwonly, _, _ = func_params(helper.node)
    used = {n.id for a in list(call.args) + [k.value for k in call.keywords]
            for n in ast.walk(a) if isinstance(n, ast.Name)}
    if not (used & set(pos + kwonly)):
        return []
    out = []
    for cm in repo.compile_path_modules():
        for c in ast.walk(cm.tree):
            if not isinstance(c, ast.Call):
                continue
            r = repo.resolve(cm, c.func, cm.enclosing_func(c))
            if r is not helper:
                continue
            binding = {}
            for name, a in zip(pos, c.args):
                binding[name] = a
            for k in c.keywords:
                if k.arg:
                    binding[k.arg] = k.value
            new_call = _Subst(binding).visit(copy.deepcopy(call))
            new_call = _expand_dictcomp(new_call)
            ast.copy_location(new_call, call)
            s2 = _parse_site(repo, schema, m, new_call, kind, func=helper,
                             alt_scope=(cm, cm.enclosing_func(c)))
            s2.via = f"{cm.rel}:{c.lineno}"
            out.append(s2)
    return out


def _expand_dictcomp(call):
    """{k: F for k in [A, B]} -> {A: F, B: F} (after substitution made the iterable literal)."""
    for k in call.keywords:
        v = k.value
        if (isinstance(v, ast.DictComp) and len(v.generators) == 1 and not v.generators[0].ifs
                and isinstance(v.generators[0].target, ast.Name)
                and isinstance(v.key, ast.Name) and v.key.id == v.generators[0].target.id
                and isinstance(v.generators[0].iter, (ast.List, ast.Tuple, ast.Set))):
            elts = v.generators[0].iter.elts
            k.value = ast.Dict(keys=list(elts), values=[v.value for _ in elts])
    return call


def _parse_site(repo, schema, m, call, kind, func=None, alt_scope=None):
    names = ["root", "pattern", "action", "incidental_actions", "skip_descendants_of", "parameters"]
    args = dict(zip(names, call.args))
    for k in call.keywords:
        if k.arg is None:
            args["**"] = k.value
        else:
            args[k.arg] = k.value
    func = func or m.enclosing_func(call)

    def resolve(e):
        r = repo.resolve(m, e, func)
        if not isinstance(r, Func) and alt_scope is not None:
            r = repo.resolve(alt_scope[0], e, alt_scope[1])
        return r

    problems = []
    pattern = _type_collection(args.get("pattern")) if "pattern" in args else None
    if pattern is None:
        problems.append("pattern is not a literal list of ir_data types")
    aexpr = args.get("action")
    action = resolve(aexpr) if aexpr is not None else None
    if isinstance(aexpr, ast.Lambda):
        problems.append("action is a lambda (traverse_ir asserts on lambdas)")
    if not isinstance(action, Func):
        action = None
    incidental = {}
    inc_exprs = {}
    ia = args.get("incidental_actions")
    if ia is not None and not (isinstance(ia, ast.Constant) and ia.value is None):
        if isinstance(ia, ast.Dict):
            for k, v in zip(ia.keys, ia.values):
                t = _type_name(k)
                if t is None:
                    problems.append("incidental_actions key is not an ir_data type")
                    continue
                elts = v.elts if isinstance(v, (ast.List, ast.Tuple)) else [v]
                fs = []
                for e in elts:
                    if isinstance(e, ast.Lambda):
                        problems.append(f"incidental action for {t} is a lambda (traverse_ir asserts on lambdas)")
                        fs.append(None)
                        continue
                    r = resolve(e)
                    fs.append(r if isinstance(r, Func) else None)
                    if not isinstance(r, Func):
                        problems.append(f"incidental action for {t} not resolvable: {ast.unparse(e)}")
                incidental[t] = fs
                inc_exprs[t] = elts
        else:
            problems.append("incidental_actions is not a dict literal")
    skip = set()
    sk = args.get("skip_descendants_of")
    if sk is not None:
        tc = _type_collection(sk)
        if tc is None:
            problems.append("skip_descendants_of is not a literal collection of ir_data types")
            skip = None
        else:
            skip = set(tc)
    params = set()
    pa = args.get("parameters")
    if pa is not None and not (isinstance(pa, ast.Constant) and pa.value is None):
        if isinstance(pa, ast.Dict) and all(isinstance(k, ast.Constant) for k in pa.keys):
            params = {k.value for k in pa.keys}
        else:
            problems.append("parameters is not a dict literal with constant keys")
            params = None
    root_types = None
    if kind == "ir":
        root_types = {"EmbossIr"}
    else:
        root = args.get("root")
        root_types = _infer_root_types(schema, root)
    return Site(m, func, call, kind, pattern, action, aexpr, incidental, inc_exprs, skip, params, root_types, problems)


def _infer_root_types(schema, expr):
    """Type of an attribute chain's last step through the schema, when unambiguous."""
    if expr is None:
        return None
    _, attrs = attr_chain(expr)
    if not attrs:
        return None
    at = schema.attr_types().get(attrs[-1])
    if not at:
        return None
    types = {t for (_, t, _) in at if t in schema.classes}
    if len(types) == len(at):
        return types
    return None


def builtin_incidentals(repo):
    """Reads the built-in incidental actions of fast_traverse_ir_top_down from traverse_ir.py."""
    m = repo.mod(TRAVERSE_IR)
    f = m.funcs.get("fast_traverse_ir_top_down")
    if f is None:
        raise AnalysisError("traverse_ir.fast_traverse_ir_top_down vanished")
    out = {}
    for n in ast.walk(f.node):
        if isinstance(n, ast.Assign) and isinstance(n.value, ast.Dict) and n.value.keys:
            if all(_type_name(k) for k in n.value.keys):
                for k, v in zip(n.value.keys, n.value.values):
                    elts = v.elts if isinstance(v, (ast.List, ast.Tuple)) else [v]
                    fs = []
                    for e in elts:
                        r = repo.resolve(m, e, f)
                        if not isinstance(r, Func):
                            raise AnalysisError("traverse_ir: built-in incidental action not resolvable")
                        fs.append(r)
                    out[_type_name(k)] = fs
    if not out:
        raise AnalysisError("traverse_ir: built-in incidental action table not found")
    return out


class Product:
    """Product graph of the IR containment graph and pattern progress for one site."""

    def __init__(self, schema, site, incidentals):
        self.schema = schema
        self.site = site
        self.pattern = site.pattern
        self.skip = site.skip or set()
        self.inc = incidentals  # type -> [Func]
        self._desc = {}
        self.n = len(self.pattern)

    def desc(self, t):
        if t not in self._desc:
            self._desc[t] = self.schema.descendants(t)
        return self._desc[t]

    def step(self, t, k):
        """Pattern index after visiting a node of type t at progress k."""
        if self.n == 1:
            return 0
        if k < self.n - 1 and self.pattern[k] == t:
            return k + 1
        return k

    def is_action_node(self, t, k):
        return k == self.n - 1 and self.pattern[-1] == t

    def succ(self, t, k):
        if t in self.skip:
            return []
        k2 = self.step(t, k)
        target = self.pattern[k2]
        out = []
        for fname, c, _ in self.schema.children(t):
            if c == target or target in self.desc(c):
                out.append((c, k2))
        return out

    def reachable(self, roots, blocked=lambda node, is_target: False, target=None):
        """Nodes reachable from roots; `blocked(node)` nodes are not entered/expanded."""
        seen = set()
        work = [r for r in roots]
        while work:
            n = work.pop()
            if n in seen:
                continue
            if blocked(n, n == target):
                continue
            seen.add(n)
            work.extend(self.succ(*n))
        return seen


def _required(f: Func):
    pos, with_def, kwonly, vararg, varkw = func_params(f.node)
    req = [p for p in pos[1:] if p not in with_def]
    valid = set(pos[1:]) | set(kwonly)
    return req, valid, varkw


def travparam(repo, schema=None, sites=None):
    res = RuleResult("R-TRAVPARAM")
    schema = schema or Schema(repo)
    sites = sites if sites is not None else collect_sites(repo, schema)
    builtins = builtin_incidentals(repo)
    for s in sites:
        res.instances += 1
        for p in s.problems:
            if "lambda" in p:
                res.add(s.key + "|lambda", f"{p}", s.module.rel, s.call.lineno, s.func.qualname if s.func else "")
        if s.pattern is None or s.skip is None or s.params is None:
            res.add(s.key + "|opaque", "traversal call cannot be interpreted statically: " + "; ".join(s.problems),
                    s.module.rel, s.call.lineno, s.func.qualname if s.func else "")
            continue
        for t in s.pattern:
            if t not in schema.classes:
                res.add(s.key + f"|type|{t}", f"pattern names ir_data.{t}, which is not an IR dataclass",
                        s.module.rel, s.call.lineno)
        if s.action is None:
            if not any("lambda" in p for p in s.problems):
                res.add(s.key + "|action", f"action {ast.unparse(s.action_expr) if s.action_expr else '?'} does not "
                        "resolve to a function definition", s.module.rel, s.call.lineno)
            continue
        inc = {}
        if s.kind == "ir":
            for t, fs in builtins.items():
                inc.setdefault(t, []).extend(fs)
        for t, fs in s.incidental.items():
            inc.setdefault(t, []).extend([f for f in fs if f is not None])
        pg = Product(schema, s, inc)
        if s.root_types is None:
            # unknown subtree root: only the initial parameters can be relied on
            roots = None
        else:
            roots = [(t, 0) for t in s.root_types]
        # providers
        inc_must = {}  # type -> [(Func, must keys)]
        for t, fs in inc.items():
            inc_must[t] = [(f, returned_keys(f.node)[0]) for f in fs]
        act_must = returned_keys(s.action.node)[0]

        def guaranteed(p, target, upto_incidental=None):
            """Is parameter p available when invoking at `target` (the main action if
            upto_incidental is None, else incidental #upto_incidental of the node)?"""
            if p in s.params:
                return True
            if roots is None:
                return False
            t, k = target
            # self providers: earlier incidental actions on the same node
            selfp = inc_must.get(t, [])
            lim = len(selfp) if upto_incidental is None else upto_incidental
            if any(p in must for _, must in selfp[:lim]):
                return True

            def blocked(node, is_target):
                if is_target:
                    return False
                nt, nk = node
                if any(p in must for _, must in inc_must.get(nt, [])):
                    return True
                if pg.is_action_node(nt, nk) and p in act_must:
                    return True
                return False

            reach = pg.reachable(roots, blocked, target)
            return target not in reach

        # which nodes are visited at all
        if roots is not None:
            visited = pg.reachable(roots)
        else:
            visited = set()
        action_nodes = [n for n in visited if pg.is_action_node(*n)]
        if roots is not None and not action_nodes:
            res.notes.append(f"{s.where}: pattern {s.pattern} matches no reachable node (dead traversal)")
        req, valid, varkw = _required(s.action)
        site_sample = {"site": s.where, "pattern": s.pattern, "action": s.action.name, "required": req,
                       "initial": sorted(s.params)}
        for p in req:
            targets = action_nodes if roots is not None else [(s.pattern[-1], len(s.pattern) - 1)]
            bad = [t for t in targets if not guaranteed(p, t)]
            res.instances += 1
            if bad:
                res.add(s.key + f"|param|{p}",
                        f"action {s.action.name} requires parameter '{p}', which is not available on every "
                        f"IR path reaching {bad[0][0]} (initial parameters {sorted(s.params)}; "
                        "traverse_ir would fail its missing-argument assertion)",
                        s.module.rel, s.call.lineno, s.func.qualname if s.func else "")
        # incidental actions' own requirements
        for t, fs in inc.items():
            for idx, f in enumerate(fs):
                ireq, _, _ = _required(f)
                nodes = [n for n in visited if n[0] == t]
                for p in ireq:
                    res.instances += 1
                    bad = [n for n in nodes if not guaranteed(p, n, upto_incidental=idx)]
                    if bad:
                        res.add(s.key + f"|incidental|{f.name}|{p}",
                                f"incidental action {f.name} (on {t}) requires parameter '{p}', not available on "
                                "every path reaching it", s.module.rel, s.call.lineno,
                                s.func.qualname if s.func else "")
        if len(res.samples) < 3:
            res.samples.append(site_sample)
        res.analysed.append(s.where)
    res.detail = {"sites": len(sites)}
    return res


# --- R-ROOTONLY -----------------------------------------------------------------------
_REQ_CALL_PREFIXES = ("_type_check_integer", "_type_check_boolean", "_type_check_same_type")


def _imposes_requirement_on_self(repo, f: Func, depth=0):
    """Does the action pass its own first parameter (the node) to a requirement helper:
    a `_type_check_*` style function or append an error mentioning the node's own type
    without first selecting a sub-field?  Returns the helper name or None."""
    pos = [a.arg for a in f.node.args.args]
    if not pos:
        return None
    me = pos[0]
    for n in walk_no_nested_funcs(f.node):
        if isinstance(n, ast.Call):
            cn = (call_name(n) or "").split(".")[-1]
            if any(isinstance(a, ast.Name) and a.id == me for a in n.args):
                if cn.startswith(_REQ_CALL_PREFIXES):
                    return cn
    return None


# (action, skipped type) pairs under which pattern matches exist that the traversal therefore never visits;
# each was confirmed by reading the action.  A pair not listed here is an unreviewed loss of coverage.
SKIP_REVIEWED = {
    ("_check_bounds_on_runtime_integer_expressions", "Expression"): "the action walks subexpressions itself (_integer_bounds_errors_for_expression recurses)",
    ("_check_bounds_on_runtime_integer_expressions", "EnumValue"): "enum values are compile-time constants of arbitrary size, not 64-bit run-time arithmetic",
    ("_add_reference_to_dependencies", "AtomicType"): "type references are not value dependencies of a field",
    ("_add_reference_to_dependencies", "Attribute"): "attribute expressions are handled by the field-reference traversal of the same function",
    ("_add_reference_to_dependencies", "FieldReference"): "the components of a field reference are recorded by the FieldReference traversal (path[0])",
    ("_add_sibling_constant_reference_to_dependencies", "AtomicType"): "below an AtomicType are the type's name (not a field) and type arguments; a sibling named in a type argument is not an ordering edge (DESIGN section 6, not claimed)",
    ("_add_sibling_constant_reference_to_dependencies", "Attribute"): "the ordering graph ignores attributes, like the field-reference traversal next to it",
    ("_add_sibling_constant_reference_to_dependencies", "FieldReference"): "components of field references are the FieldReference traversal's edges (path[0])",
    ("_add_field_reference_to_dependencies", "Attribute"): "references inside attributes are not read when a field is located or read",
    ("_add_resolved_field_reference_to_dependencies", "Attribute"): "same traversal as its twin, after the later path components are resolved: references inside attributes are not read when a field is located or read",
    ("compute_constraints_of_expression", "Expression"): "the action recurses into its operands",
    ("_type_check_expression", "Expression"): "the action recurses into its operands",
    ("_type_check_array_size", "Expression"): "the requirement concerns the size expression itself, not its operands (R-ROOTONLY)",
    ("_type_check_array_size", "AtomicType"): "runtime parameters of an element type are not array sizes",
    ("_resolve_reference", "FieldReference"): "field-reference components are resolved, in order, by _resolve_field_reference",
    ("_check_keyword_in_attribute_or_type_argument", "FieldReference"): "the components of a field reference are field names; keywords ($next, ...) are builtin references, never path components",
}


def travroot(repo, schema=None, sites=None, modules=None):
    """R-TRAVROOT: a pass covers the whole of what it was given.  The root handed to a traversal is a parameter of the
    enclosing function or a singular sub-node of a local (`field.location.size`): a root that is an element or a slice
    of a repeated field (`ir.module[0]`, `ir.module[:1]`) or a freshly constructed container covers only a part, and
    the rest of the IR silently keeps whatever the pass was meant to establish."""
    res = RuleResult("R-TRAVROOT")
    schema = schema or Schema(repo)
    sites = sites if sites is not None else collect_sites(repo, schema)
    for s in sites:
        if modules is not None and not s.module.rel.endswith(tuple(modules)):
            continue
        if not s.call.args or s.func is None:
            continue
        res.instances += 1
        root = s.call.args[0]
        fn = s.func
        params = {a.arg for a in fn.node.args.args}
        expr = root
        if isinstance(expr, ast.Name) and expr.id not in params:
            defs = [n.value for n in walk_no_nested_funcs(fn.node) if isinstance(n, ast.Assign)
                    and any(isinstance(t, ast.Name) and t.id == expr.id for t in n.targets)]
            if len(defs) == 1:
                expr = defs[0]
        bad = [n for n in ast.walk(expr) if isinstance(n, (ast.Call, ast.Subscript))]
        if bad:
            res.add(f"{s.module.rel}|{fn.qualname}|{ast.unparse(root)[:50]}", f"{fn.qualname} traverses `{ast.unparse(expr)[:80]}` "
                    f"(a {'constructed container' if isinstance(bad[0], ast.Call) else 'part of a repeated field'}) instead of the IR it "
                    "was given: objects outside that part are never visited by this pass", s.module.rel, s.call.lineno, fn.qualname)
        elif len(res.samples) < 3:
            res.samples.append(f"{s.module.rel}:{s.call.lineno} root `{ast.unparse(root)}`")
    return res


def skiploss(repo, schema=None, sites=None, modules=None):
    """skip_descendants_of={S} hides every pattern match below an S node from the action.  For each site the
    hidden matches are computed on the product graph; every (action, S) pair that hides at least one match must
    be one of the reviewed pairs above."""
    res = RuleResult("R-SKIPLOSS")
    schema = schema or Schema(repo)
    sites = sites if sites is not None else collect_sites(repo, schema)
    builtins = builtin_incidentals(repo)
    seen_pairs = set()
    for s in sites:
        if not s.skip or s.pattern is None or s.action is None:
            continue
        if modules is not None and not s.module.rel.endswith(tuple(modules)):
            continue
        P = Product(schema, s, builtins)
        roots = [(t, 0) for t in (s.root_types or [])]
        reach = P.reachable(roots)
        free = Product(schema, s, builtins)
        free.skip = set()
        for (t, k) in sorted(reach):
            if t not in s.skip:
                continue
            below = free.reachable(free.succ(t, k))
            hidden = sorted({n[0] for n in below if free.is_action_node(*n)})
            if not hidden:
                continue
            pair = (s.action.name, t)
            if pair in seen_pairs:
                continue
            seen_pairs.add(pair)
            res.instances += 1
            if pair in SKIP_REVIEWED:
                if len(res.samples) < 4:
                    res.samples.append(f"{s.action.name} skips below {t}: {SKIP_REVIEWED[pair]}")
                continue
            res.add(f"{s.module.rel}|{s.action.name}|skip|{t}", f"the traversal that runs {s.action.name} over pattern {s.pattern} "
                    f"does not descend below {t} nodes, but {'/'.join(hidden)} nodes matching the pattern occur there "
                    f"(e.g. the element type of an array is a Type below a Type): {s.action.name} is never applied to them",
                    s.module.rel, s.call.lineno, s.func.qualname if s.func else "")
    # the converse: a reviewed skip that disappeared.  Each reviewed pair says why the action must NOT be applied below
    # T; if the action's traversal is still there but no longer skips T, it now runs on those nodes.
    in_scope = {}
    for s in sites:
        if s.action is None or s.pattern is None:
            continue
        if modules is not None and not s.module.rel.endswith(tuple(modules)):
            continue
        in_scope.setdefault(s.action.name, s)
    for (action, t), reason in sorted(SKIP_REVIEWED.items()):
        if action in in_scope and (action, t) not in seen_pairs:
            s = in_scope[action]
            res.add(f"{s.module.rel}|{action}|unskip|{t}", f"the traversal that runs {action} over pattern {s.pattern} no longer skips "
                    f"the descendants of {t}: the action is now applied to matches below {t} nodes, which it must not see "
                    f"({reason})", s.module.rel, s.call.lineno, s.func.qualname if s.func else "")
    res.detail = {"reviewed_pairs": len(SKIP_REVIEWED), "pairs_on_tree": sorted(f"{a}/{t}" for a, t in seen_pairs)}
    return res


def rootonly(repo, schema=None, sites=None):
    res = RuleResult("R-ROOTONLY")
    schema = schema or Schema(repo)
    sites = sites if sites is not None else collect_sites(repo, schema)
    for s in sites:
        if s.pattern is None or s.action is None or s.skip is None:
            continue
        last = s.pattern[-1]
        if not schema.self_nesting(last):
            continue
        helper = _imposes_requirement_on_self(repo, s.action)
        if helper is None:
            continue
        res.instances += 1
        res.samples.append({"site": s.where, "pattern": s.pattern, "action": s.action.name,
                            "requirement": helper, "skip": sorted(s.skip)})
        if last not in s.skip:
            res.add(s.key + "|rootonly",
                    f"action {s.action.name} imposes a positional requirement ({helper}) on every "
                    f"{last} matched by pattern {s.pattern}, but {last} nests inside itself and is not in "
                    f"skip_descendants_of: the requirement is also applied to every sub-{last.lower()} "
                    "(well-typed modules rejected)", s.module.rel, s.call.lineno,
                    s.func.qualname if s.func else "")
    return res


# --- positive controls ----------------------------------------------------------------
_CTL_SRC = '''
from compiler.util import ir_data
from compiler.util import traverse_ir

def _act(expression, errors, field, missing_thing):
    pass

def _check_int(expression, errors):
    _type_check_integer(expression, errors)

def run(ir):
    errors = []
    traverse_ir.fast_traverse_ir_top_down(
        ir, [ir_data.Expression], _act, parameters={"errors": errors})
    traverse_ir.fast_traverse_ir_top_down(
        ir, [ir_data.ArrayType, ir_data.Expression], _check_int, parameters={"errors": errors})
'''


def _control_repo(repo):
    return Repo(repo.root, overlay={"compiler/front_end/zz_verif_control.py": _CTL_SRC})


def control_travparam(repo):
    r2 = _control_repo(repo)
    sch = Schema(r2)
    sites = collect_sites(r2, sch, [r2.mod("compiler/front_end/zz_verif_control.py")])
    res = travparam(r2, sch, sites)
    keys = {f.construct.rsplit("|", 1)[-1] for f in res.findings}
    # `field` is not guaranteed for an Expression (expressions occur outside fields); `errors` is
    return "missing_thing" in keys and "field" in keys and "errors" not in keys


def control_rootonly(repo):
    r2 = _control_repo(repo)
    sch = Schema(r2)
    sites = collect_sites(r2, sch, [r2.mod("compiler/front_end/zz_verif_control.py")])
    return bool(rootonly(r2, sch, sites).findings)


# --- R-INCIDENTAL-PURE ------------------------------------------------------------------
MUTATING_METHODS = {"append", "extend", "insert", "update", "setdefault", "pop", "clear", "remove", "add", "discard", "popitem", "sort"}


def incidental_pure(repo, schema=None, sites=None, site_modules=None):
    """`site_modules`: consider only the actions installed by traversals written in those modules (a property about
    the C++ back end is concerned by the defaults the back end gathers, not by the scopes of the symbol resolver).
    Traversal parameters are scoped to a branch of the IR only by a shallow copy of the parameter dict:
    an incidental action (or an action that returns overrides) must not mutate a parameter *value* in place,
    or the override leaks to sibling branches and later modules.  It may rebind the name to a copy first."""
    res = RuleResult("R-INCIDENTAL-PURE")
    schema = schema or Schema(repo)
    sites = sites if sites is not None else collect_sites(repo, schema)
    funcs = {}
    for s in sites:
        if site_modules is not None and not s.module.rel.endswith(tuple(site_modules)):
            continue
        for t, fs in s.incidental.items():
            for f in fs:
                if f is not None:
                    funcs[f.fq] = (f, f"incidental action for {t} at {s.where}")
        if s.action is not None and returned_keys(s.action.node)[1]:
            funcs.setdefault(s.action.fq, (s.action, f"action returning parameter overrides at {s.where}"))
    for fq, (f, why) in sorted(funcs.items()):
        params = [a.arg for a in f.node.args.args][1:] + [a.arg for a in f.node.args.kwonlyargs]
        # parameters handed on unchanged in identity: `return {"k": p}`
        rets = set()
        for n in walk_no_nested_funcs(f.node):
            if isinstance(n, ast.Return) and isinstance(n.value, ast.Dict):
                for v in n.value.values:
                    if isinstance(v, ast.Name):
                        rets.add(v.id)
        for p in params:
            res.instances += 1
            if p in ("errors",):
                continue  # error lists are shared accumulators by design
            rebound_at = None
            for st in f.node.body:
                for n in walk_no_nested_funcs(st):
                    if isinstance(n, ast.Assign) and any(isinstance(t, ast.Name) and t.id == p for t in n.targets):
                        if rebound_at is None:
                            rebound_at = n.lineno
            for n in walk_no_nested_funcs(f.node):
                line = getattr(n, "lineno", 0)
                mut = None
                if isinstance(n, (ast.Assign, ast.AugAssign)):
                    tgts = n.targets if isinstance(n, ast.Assign) else [n.target]
                    for t in tgts:
                        if isinstance(t, ast.Subscript) and isinstance(t.value, ast.Name) and t.value.id == p:
                            mut = f"{p}[...] = ..."
                elif isinstance(n, ast.Call) and isinstance(n.func, ast.Attribute) and isinstance(n.func.value, ast.Name) \
                        and n.func.value.id == p and n.func.attr in MUTATING_METHODS:
                    mut = f"{p}.{n.func.attr}(...)"
                elif isinstance(n, ast.Delete):
                    for t in n.targets:
                        if isinstance(t, ast.Subscript) and isinstance(t.value, ast.Name) and t.value.id == p:
                            mut = f"del {p}[...]"
                if mut and (rebound_at is None or line < rebound_at) and p in rets:
                    res.add(f"{f.file}|{f.qualname}|{p}", f"{f.qualname} ({why}) mutates its traversal parameter `{p}` in place "
                            f"(`{mut}`) and hands it on: the value is shared by every branch of the traversal, so a setting "
                            "made inside one scope leaks into sibling scopes and later modules", f.file, line, f.qualname)
                    break
        res.analysed.append(f"{f.file}:{f.qualname}")
    res.samples = [f"{f.fq}: {why}" for f, why in list(funcs.values())[:3]]
    return res


def typereach(repo, schema=None, sites=None):
    """R-TYPEREACH (C14): a rule about a field's *type* (what the referenced type definition is: bit- or byte-
    addressable, fixed size, ...) concerns every Type node of the structure, and an array's element type is a Type
    below a Type.  A traversal action in constraints.py that resolves `<t>.atomic_type.reference` therefore either is
    registered for a pattern ending in Type (the traversal then hands it every nested Type), or, when it is handed a
    Field / Structure and takes the type from it, walks `array_type.base_type` (or uses ir_util.get_base_type) itself.
    An action that takes `field.type`, returns unless it is atomic, and never looks at base types silently exempts
    every array field from the rule."""
    res = RuleResult("R-TYPEREACH")
    schema = schema or Schema(repo)
    sites = sites if sites is not None else collect_sites(repo, schema)
    for s in sites:
        if s.pattern is None or not isinstance(s.action, Func) or not s.module.rel.endswith("front_end/constraints.py"):
            continue
        f = s.action
        params = [a.arg for a in f.node.args.args]
        if not params:
            continue
        first = params[0]
        src_names = {first}
        # locals derived from the matched node: x = first.type / first.physical_type_alias
        derived = {}
        for n in walk_no_nested_funcs(f.node):
            if isinstance(n, ast.Assign) and len(n.targets) == 1 and isinstance(n.targets[0], ast.Name) \
                    and isinstance(n.value, ast.Attribute) and isinstance(n.value.value, ast.Name) and n.value.value.id == first:
                derived[n.targets[0].id] = n.value.attr
        resolves = []
        for n in walk_no_nested_funcs(f.node):
            if isinstance(n, ast.Attribute) and n.attr == "reference" and isinstance(n.value, ast.Attribute) and n.value.attr == "atomic_type":
                base = n.value.value
                txt = ast.unparse(base)
                root = txt.split(".")[0]
                if root == first or root in derived:
                    resolves.append((txt, n.lineno))
        if not resolves:
            continue
        res.instances += 1
        last = s.pattern[-1]
        body = ast.unparse(f.node)
        walks = "base_type" in body or "get_base_type" in body
        if last in ("Type", "ArrayType"):
            if s.skip and ({"Type", "ArrayType"} & set(s.skip)):
                res.add(f"{s.module.rel}|{f.name}|skips-nested-types", f"{f.name} is registered for {s.pattern} but the traversal skips the "
                        f"descendants of {sorted(set(s.skip) & {'Type', 'ArrayType'})}: array element types are never checked",
                        s.module.rel, s.call.lineno, f.name)
            continue
        # (RuntimeParameter.physical_type_alias is exempt: array-typed parameters are rejected by type_check)
        from_type = [t for t, _ in resolves if derived.get(t.split(".")[0]) == "type" or ".type" in t]
        if from_type and not walks:
            res.add(f"{s.module.rel}|{f.name}|array-elements-exempt", f"{f.name} is registered for {s.pattern}, takes the type from the "
                    f"{last} (`{from_type[0]}`) and resolves its atomic_type only: for an array field the element type (a Type below "
                    "the field's Type) is never examined, so the rule it enforces does not apply to arrays", s.module.rel,
                    s.call.lineno, f.name)
    if res.instances < 3 and not res.findings:
        raise AnalysisError(f"constraints.py: only {res.instances} type-resolving traversal actions found")
    res.analysed = ["compiler/front_end/constraints.py"]
    return res
