"""R-INTRANGE: range-of-type constants agree with the language-level ranges of the C++ / Emboss integer
types they name.  Closed arithmetic expressions extracted from the source (over one width symbol) are
constant-folded by the checker's own evaluator for every width in range; no repository code runs.

R-INTERMEDIATE: the C++ intermediate type of a rendered operation is chosen from the ranges of the
result *and* every operand."""
from __future__ import annotations

import ast
import re

from ..pyfacts import Repo, call_name, walk_no_nested_funcs
from ..report import AnalysisError, RuleResult

HG = "compiler/back_end/cpp/header_generator.py"
CONS = "compiler/front_end/constraints.py"
EB = "compiler/front_end/expression_bounds.py"


class Unfoldable(Exception):
    pass


def fold(node, env):
    if isinstance(node, ast.Constant) and isinstance(node.value, int) and not isinstance(node.value, bool):
        return node.value
    if isinstance(node, ast.Name):
        if node.id in env:
            return env[node.id]
        raise Unfoldable(node.id)
    if isinstance(node, ast.UnaryOp) and isinstance(node.op, ast.USub):
        return -fold(node.operand, env)
    if isinstance(node, ast.BinOp):
        a, b = fold(node.left, env), fold(node.right, env)
        if isinstance(node.op, ast.Add):
            return a + b
        if isinstance(node.op, ast.Sub):
            return a - b
        if isinstance(node.op, ast.Mult):
            return a * b
        if isinstance(node.op, ast.Pow):
            if b < 0 or b > 4096:
                raise Unfoldable("pow")
            return a ** b
        if isinstance(node.op, ast.FloorDiv):
            if b == 0:
                raise Unfoldable("div0")
            return a // b
        if isinstance(node.op, ast.Mod):
            if b == 0:
                raise Unfoldable("mod0")
            return a % b
    if isinstance(node, ast.Call) and call_name(node) in ("str", "int") and len(node.args) == 1:
        return fold(node.args[0], env)
    raise Unfoldable(type(node).__name__)


def _conjuncts(test):
    if isinstance(test, ast.BoolOp) and isinstance(test.op, ast.And):
        out = []
        for v in test.values:
            out += _conjuncts(v)
        return out
    return [test]


def _bounds_from_test(test, lo_names, hi_names, env):
    """Parses `lo >= L and hi <= H` (either orientation) -> (L, H) folded, missing side None."""
    L = H = None
    for c in _conjuncts(test):
        if not (isinstance(c, ast.Compare) and len(c.ops) == 1):
            continue
        l, op, r = c.left, c.ops[0], c.comparators[0]
        ln = l.id if isinstance(l, ast.Name) else None
        rn = r.id if isinstance(r, ast.Name) else None
        try:
            if ln in lo_names and isinstance(op, ast.GtE):
                L = fold(r, env)
            elif rn in lo_names and isinstance(op, ast.LtE):
                L = fold(l, env)
            elif ln in hi_names and isinstance(op, ast.LtE):
                H = fold(r, env)
            elif rn in hi_names and isinstance(op, ast.GtE):
                H = fold(l, env)
            elif ln in lo_names and isinstance(op, ast.Gt):
                L = fold(r, env) + 1
            elif ln in hi_names and isinstance(op, ast.Lt):
                H = fold(r, env) - 1
        except Unfoldable:
            return "unfoldable", "unfoldable"
    return L, H


def type_range(signed, bits):
    return (-(2 ** (bits - 1)), 2 ** (bits - 1) - 1) if signed else (0, 2 ** bits - 1)


def intrange(repo, parts=None):
    """parts: subset of {'backend', 'gate', 'leaf'} (default all): which of the three families of range tests count for the calling property."""
    res = RuleResult("R-INTRANGE")
    # (1) header_generator: functions returning "::std::{u}int{}_t".format(size) under range guards
    hg = repo.mod(HG)
    n1 = 0
    for f in hg.top_funcs():
        for loop in [n for n in walk_no_nested_funcs(f.node) if isinstance(n, ast.For)]:
            if not (isinstance(loop.target, ast.Name) and isinstance(loop.iter, (ast.Tuple, ast.List))
                    and all(isinstance(e, ast.Constant) and isinstance(e.value, int) for e in loop.iter.elts)):
                continue
            sizes = [e.value for e in loop.iter.elts]
            svar = loop.target.id
            params = [a.arg for a in f.node.args.args]
            for st in ast.walk(loop):
                if not isinstance(st, ast.If):
                    continue
                ret = next((s for s in st.body if isinstance(s, ast.Return)), None)
                if ret is None or not isinstance(ret.value, ast.Call):
                    continue
                fmt = ret.value.func.value.value if isinstance(ret.value.func, ast.Attribute) and \
                    isinstance(ret.value.func.value, ast.Constant) and isinstance(ret.value.func.value.value, str) else None
                if not fmt or "int{}_t" not in fmt:
                    continue
                if "{}int{}_t" in fmt:
                    continue  # signedness chosen by an argument: handled by the max_bits rule below
                signed = "uint" not in fmt
                if len(params) < 2:
                    continue
                for size in sizes:
                    res.instances += 1
                    n1 += 1
                    L, H = _bounds_from_test(st.test, {params[0]}, {params[1]}, {svar: size})
                    want = type_range(signed, size)
                    if L == "unfoldable":
                        res.add(f"{HG}|{f.name}|{fmt}|opaque", f"{f.name}: range test for {fmt} cannot be folded", HG, st.lineno, f.name)
                        break
                    if (L, H) != want:
                        res.add(f"{HG}|{f.name}|{'int' if signed else 'uint'}|range",
                                f"{f.name} selects {fmt.format(size)} for values in [{L}, {H}]; that type holds exactly "
                                f"[{want[0]}, {want[1]}] — arithmetic in the generated code would overflow (or a wider "
                                "type than necessary is skipped)", HG, st.lineno, f.name)
                        break
            # enum storage type: `if max_bits <= size`
            for st in ast.walk(loop):
                if isinstance(st, ast.If) and isinstance(st.test, ast.Compare) and len(st.test.ops) == 1:
                    ret = next((s for s in st.body if isinstance(s, ast.Return)), None)
                    if ret is None or "int{}_t" not in ast.unparse(ret):
                        continue
                    t = st.test
                    if isinstance(t.left, ast.Name) and isinstance(t.comparators[0], ast.Name) and t.comparators[0].id == svar \
                            and "{}int{}_t" in ast.unparse(ret):
                        res.instances += 1
                        n1 += 1
                        if not isinstance(t.ops[0], ast.LtE):
                            res.add(f"{HG}|{f.name}|storage-bits", f"{f.name} picks the first size with `{ast.unparse(t)}`; a "
                                    "value of max_bits bits needs a type of at least that many bits (`<=`)", HG, st.lineno, f.name)
    # special case of -2**63 in _render_integer
    ri = hg.funcs.get("_render_integer")
    if ri is not None:
        for n in walk_no_nested_funcs(ri.node):
            if isinstance(n, ast.If) and isinstance(n.test, ast.Compare) and isinstance(n.test.left, ast.Name) \
                    and isinstance(n.test.ops[0], ast.Eq):
                try:
                    v = fold(n.test.comparators[0], {})
                except Unfoldable:
                    continue
                res.instances += 1
                if v != -(2 ** 63):
                    res.add(f"{HG}|_render_integer|min-literal", f"_render_integer special-cases {v}, the value that cannot be "
                            "written as a negated literal is -2**63", HG, n.lineno, "_render_integer")
    # (2) constraints: _bounds_can_fit_<N>_bit_(un)signed
    cons = repo.mod(CONS)
    n2 = 0
    for f in cons.top_funcs():
        m = re.search(r"can_fit_(\d+)_bit_(un)?signed", f.name)
        if not m:
            continue
        bits, unsigned = int(m.group(1)), bool(m.group(2))
        rets = [n for n in walk_no_nested_funcs(f.node) if isinstance(n, ast.Return)]
        params = [a.arg for a in f.node.args.args]
        if len(rets) != 1 or len(params) != 2:
            continue
        res.instances += 1
        n2 += 1
        L, H = _bounds_from_test(rets[0].value, {params[0]}, {params[1]}, {})
        want = type_range(not unsigned, bits)
        if (L, H) != want:
            res.add(f"{CONS}|{f.name}|range", f"{f.name} accepts [{L}, {H}]; a {bits}-bit {'un' if unsigned else ''}signed integer "
                    f"holds exactly [{want[0]}, {want[1]}]: the 64-bit gate would admit expressions that overflow in C++",
                    CONS, f.line, f.name)
    # (3) expression_bounds: leaf ranges of the prelude integer types
    eb = repo.mod(EB)
    n3 = 0
    leaf = None
    for f in eb.top_funcs():
        src = eb.seg(f.node)
        if '("UInt",)' in src and '("Int",)' in src:
            leaf = f
    if leaf is None:
        raise AnalysisError("expression_bounds: leaf range function not found")
    params = [a.arg for a in leaf.node.args.args]
    wvar = params[-1]
    expected = {
        "UInt": lambda n: (0, 2 ** n - 1),
        "Int": lambda n: (-(2 ** (n - 1)), 2 ** (n - 1) - 1),
        # decimal per nibble, high partial nibble zero-extended
        "Bcd": lambda n: (0, 10 ** (n // 4) * 2 ** (n % 4) - 1),
    }
    for n in walk_no_nested_funcs(leaf.node):
        if not isinstance(n, ast.If):
            continue
        cur = n
        while True:
            t = cur.test
            name = None
            if isinstance(t, ast.Compare) and isinstance(t.comparators[0], ast.Tuple) and len(t.comparators[0].elts) == 1 \
                    and isinstance(t.comparators[0].elts[0], ast.Constant):
                name = t.comparators[0].elts[0].value
            if name in expected:
                lo = hi = None
                for st in cur.body:
                    if isinstance(st, ast.Assign) and isinstance(st.targets[0], ast.Attribute):
                        if st.targets[0].attr == "minimum_value":
                            lo = st.value
                        if st.targets[0].attr == "maximum_value":
                            hi = st.value
                if lo is None or hi is None:
                    res.add(f"{EB}|{leaf.name}|{name}|missing", f"{leaf.name}: no minimum/maximum assignment for {name}", EB, cur.lineno, leaf.name)
                else:
                    for w in range(1, 65):
                        res.instances += 1
                        n3 += 1
                        try:
                            lv = int(lo.value) if isinstance(lo, ast.Constant) and isinstance(lo.value, str) else fold(lo, {wvar: w})
                            hv = int(hi.value) if isinstance(hi, ast.Constant) and isinstance(hi.value, str) else fold(hi, {wvar: w})
                        except (Unfoldable, ValueError):
                            res.add(f"{EB}|{leaf.name}|{name}|opaque", f"{leaf.name}: range of {name} cannot be folded", EB, cur.lineno, leaf.name)
                            break
                        want = expected[name](w)
                        if (lv, hv) != want:
                            res.add(f"{EB}|{leaf.name}|{name}|range", f"{leaf.name}: a {w}-bit {name} is given the range [{lv}, {hv}]; "
                                    f"its values are exactly [{want[0]}, {want[1]}] (bounds inferred from it are unsound or loose)",
                                    EB, cur.lineno, leaf.name)
                            break
            if len(cur.orelse) == 1 and isinstance(cur.orelse[0], ast.If):
                cur = cur.orelse[0]
            else:
                break
        break
    res.detail = {"cpp_type_tests": n1, "gate_range_functions": n2, "leaf_range_evaluations": n3}
    if (n1 < 4 or n2 < 2 or n3 < 150) and not res.findings:
        raise AnalysisError(f"R-INTRANGE anchors shrank: {res.detail}")
    res.samples = ["int32_t <-> [-2**31, 2**31-1]", "_bounds_can_fit_64_bit_unsigned <-> [0, 2**64-1]", "Bcd:n <-> [0, 10**(n//4)*2**(n%4)-1]"]
    res.analysed = [HG, CONS, EB]
    if parts is not None:
        files = {"backend": HG, "gate": CONS, "leaf": EB}
        keep = {files[p] for p in parts}
        res.findings = [f for f in res.findings if f.file in keep]
        res.instances = sum(n for p, n in (("backend", n1), ("gate", n2), ("leaf", n3)) if p in parts)
        res.analysed = sorted(keep)
        res.detail["parts"] = sorted(parts)
    return res


def intermediate(repo):
    res = RuleResult("R-INTERMEDIATE")
    hg = repo.mod(HG)
    target = None
    for f in hg.top_funcs():
        src = hg.seg(f.node)
        if "intermediate_type" in src and "_cpp_integer_type_for_range" in src and "function_variant" in src:
            target = f
    if target is None:
        raise AnalysisError("header_generator: the function choosing the intermediate type was not found")
    f = target
    # lists feeding _cpp_integer_type_for_range(min(A), max(B))
    feeds = set()
    for n in walk_no_nested_funcs(f.node):
        if isinstance(n, ast.Call) and (call_name(n) or "").endswith("_cpp_integer_type_for_range"):
            for a in n.args:
                for x in ast.walk(a):
                    if isinstance(x, ast.Name):
                        feeds.add(x.id)
    loops = []
    for n in walk_no_nested_funcs(f.node):
        if isinstance(n, ast.For):
            appended = {c.func.value.id for c in ast.walk(n) if isinstance(c, ast.Call) and isinstance(c.func, ast.Attribute)
                        and c.func.attr in ("append", "add") and isinstance(c.func.value, ast.Name)}
            if appended & feeds:
                loops.append(n)
    res.instances = 2
    if not loops:
        res.add(f"{HG}|{f.name}|loop", "no loop collects operand ranges for the intermediate type", HG, f.line, f.name)
        return res
    params = [a.arg for a in f.node.args.args]
    node_name = params[0]
    for lp in loops:
        it = ast.unparse(lp.iter)
        names = {x.id for x in ast.walk(lp.iter) if isinstance(x, ast.Name)}
        has_result = node_name in names
        has_args = "args" in it
        if not (has_result and has_args):
            res.add(f"{HG}|{f.name}|domain", f"{f.name} chooses the C++ intermediate type from `{it}`; it must cover the result "
                    f"({node_name}) and every operand — otherwise the operation is carried out in a type too narrow for its "
                    "result and wraps", HG, lp.lineno, f.name)
    # min over minima and max over maxima
    for n in walk_no_nested_funcs(f.node):
        if isinstance(n, ast.Call) and (call_name(n) or "").endswith("_cpp_integer_type_for_range") and len(n.args) == 2:
            a0, a1 = ast.unparse(n.args[0]), ast.unparse(n.args[1])
            if a0.startswith("min(") and a1.startswith("max("):
                if "min" not in a0[4:] or "max" not in a1[4:]:
                    res.add(f"{HG}|{f.name}|minmax", f"intermediate range is ({a0}, {a1}); expected min of minima and max of maxima",
                            HG, n.lineno, f.name)
            else:
                res.add(f"{HG}|{f.name}|minmax", f"intermediate range is ({a0}, {a1}); expected min(...minima), max(...maxima)",
                        HG, n.lineno, f.name)
    res.samples = [f"{f.name}: loop over {ast.unparse(loops[0].iter)}"]
    res.analysed = [HG]
    return res


# ---- R-BOUNDARY: documented boundary predicates ------------------------------------------------
def fold_bool(node, env):
    """Folds a boolean test over integer variables (comparison chains, and/or/not)."""
    if isinstance(node, ast.BoolOp):
        vals = [fold_bool(v, env) for v in node.values]
        return all(vals) if isinstance(node.op, ast.And) else any(vals)
    if isinstance(node, ast.UnaryOp) and isinstance(node.op, ast.Not):
        return not fold_bool(node.operand, env)
    if isinstance(node, ast.Compare):
        left = fold(node.left, env)
        for op, comp in zip(node.ops, node.comparators):
            right = fold(comp, env)
            ok = {ast.Lt: left < right, ast.LtE: left <= right, ast.Gt: left > right, ast.GtE: left >= right,
                  ast.Eq: left == right, ast.NotEq: left != right}.get(type(op))
            if ok is None:
                raise Unfoldable("cmp")
            if not ok:
                return False
            left = right
        return True
    raise Unfoldable(type(node).__name__)


def _rejecting_if(func, var_hint):
    """The `if <test over var>:` statements of a function whose body appends/returns an error."""
    out = []
    for n in walk_no_nested_funcs(func.node):
        if isinstance(n, ast.If):
            names = {x.id for x in ast.walk(n.test) if isinstance(x, ast.Name)}
            body = "\n".join(ast.unparse(s) for s in n.body)
            if var_hint in names and "error.error(" in body:
                out.append(n)
    return out


def boundary(repo, only_wider=False):
    """only_wider: report only tests that accept more than the documented interval (what matters to properties about
    accepted programs, such as C07); the default also reports tests that reject legal values."""
    res = RuleResult("R-BOUNDARY")
    narrower = set()
    window = range(-3, 70)

    def accepted(test, var, extra=None):
        acc = set()
        for v in window:
            env = {var: v}
            env.update(extra or {})
            try:
                if not fold_bool(test, env):
                    acc.add(v)
            except Unfoldable:
                return None
        return acc

    def expect(rel, fname, var, want, what, extra=None):
        m = repo.mod(rel)
        f = m.funcs.get(fname)
        if f is None:
            raise AnalysisError(f"{rel}: {fname} vanished")
        ifs = _rejecting_if(f, var)
        res.instances += 1
        if not ifs:
            res.add(f"{rel}|{fname}|{var}|missing", f"{fname} no longer rejects out-of-range `{var}` ({what})", rel, f.line, fname)
            return
        for n in ifs:
            acc = accepted(n.test, var, extra)
            if acc is None:
                continue
            if acc == {v for v in window if want(v)}:
                if len(res.samples) < 4:
                    res.samples.append(f"{fname}: rejects `{ast.unparse(n.test)}` ({what})")
                return
        n = ifs[0]
        acc = accepted(n.test, var, extra)
        lo = min(acc) if acc else None
        hi = max(acc) if acc else None
        if acc is not None and acc <= {v for v in window if want(v)}:
            narrower.add(f"R-BOUNDARY|{rel}|{fname}|{var}|boundary")
        res.add(f"{rel}|{fname}|{var}|boundary", f"{fname} rejects `{ast.unparse(n.test)}`, i.e. accepts {var} in "
                f"[{lo if lo != window[0] else '-inf'}, {hi if hi != window[-1] else '+inf'}]; documented rule: {what}",
                rel, n.lineno, fname)

    AC = "compiler/front_end/attribute_checker.py"
    expect(AC, "_verify_width_attribute_on_enum", "max_bits_value", lambda v: 1 <= v <= 64,
           "'maximum_bits' on an enum must be between 1 and 64")
    expect(CONS, "_check_size_of_bits", "fixed_size", lambda v: v <= 64, "`bits` types must be 64 bits or smaller")
    expect(CONS, "_check_physical_type_requirements", "size", lambda v: 1 <= v <= 40,
           "an enum field must be between 1 and maximum_bits bits", extra={"max_enum_size": 40})
    # enum value representability: ranges per signedness and maximum_bits
    cons = repo.mod(CONS)
    f = cons.funcs.get("_check_that_enum_values_are_representable")
    if f is None:
        raise AnalysisError("constraints._check_that_enum_values_are_representable vanished")
    ranges = {}
    for n in walk_no_nested_funcs(f.node):
        if isinstance(n, ast.If) and isinstance(n.test, ast.Name):
            for branch, signed in ((n.body, True), (n.orelse, False)):
                for st in branch:
                    if isinstance(st, ast.Assign) and isinstance(st.value, ast.Tuple) and len(st.value.elts) == 2:
                        ranges[signed] = (st.value.elts, [x for x in branch[:branch.index(st)] if isinstance(x, ast.Assign)
                                                           and len(x.targets) == 1 and isinstance(x.targets[0], ast.Name)])
    if len(ranges) != 2:
        raise AnalysisError("enum range tuples not found")
    bits_var = None
    for n in walk_no_nested_funcs(f.node):
        if isinstance(n, ast.Assign) and isinstance(n.value, ast.Call) and "ENUM_MAXIMUM_BITS" in ast.unparse(n.value):
            bits_var = n.targets[0].id
    for signed, (elts, locals_) in ranges.items():
        reported = False
        for w in range(1, 65):
            res.instances += 1
            if reported:
                continue
            try:
                env = {bits_var: w}
                for a in locals_:  # locals introduced in the branch before the range tuple
                    env[a.targets[0].id] = fold(a.value, env)
                lo, hi = fold(elts[0], env), fold(elts[1], env)
            except Unfoldable:
                res.add(f"{CONS}|{f.name}|opaque", "enum range is not a closed expression of maximum_bits", CONS, f.line, f.name)
                reported = True
                continue
            if (lo, hi) != type_range(signed, w):
                if lo >= type_range(signed, w)[0] and hi <= type_range(signed, w)[1]:
                    narrower.add(f"R-BOUNDARY|{CONS}|{f.name}|{'signed' if signed else 'unsigned'}|range")
                res.add(f"{CONS}|{f.name}|{'signed' if signed else 'unsigned'}|range",
                        f"{f.name}: a {'signed' if signed else 'unsigned'} enum with maximum_bits={w} is allowed values in "
                        f"[{lo}, {hi}]; {w} bits hold exactly {list(type_range(signed, w))}", CONS, f.line, f.name)
                reported = True
    # the membership test must be inclusive on both ends
    src = cons.seg(f.node)
    res.instances += 1
    if not re.search(r"enum_range\[0\]\s*<=\s*\w+(\[\d\])?\s*<=\s*enum_range\[1\]", src):
        res.add(f"{CONS}|{f.name}|inclusive", f"{f.name}: values are not tested with `range[0] <= v <= range[1]`", CONS, f.line, f.name)
    # the is_signed flag tested is the one read from the is_signed attribute
    # cross-language: the runtime's BitBlock limit equals the front end's `bits` limit
    rt = repo.read("runtime/cpp/emboss_memory_util.h")
    m = re.search(r"static_assert\(\s*kBufferSizeInBits\s*<=\s*(\d+)", rt)
    res.instances += 1
    if not m:
        res.add("runtime|BitBlock|limit", "BitBlock no longer asserts an upper limit on its size", "runtime/cpp/emboss_memory_util.h")
    elif int(m.group(1)) != 64:
        res.add("runtime|BitBlock|limit", f"BitBlock accepts up to {m.group(1)} bits, the front end admits `bits` types up to 64",
                "runtime/cpp/emboss_memory_util.h")
    res.analysed = [AC, CONS, "runtime/cpp/emboss_memory_util.h"]
    if only_wider:
        res.findings = [x for x in res.findings if x.key not in narrower and f"R-BOUNDARY|{x.key}" not in narrower]
    return res


# ---- R-RENDERCONST: the C++ text of an integer constant denotes that integer ----------------------------
def _pyeval(node, env):
    if isinstance(node, ast.Constant):
        return node.value
    if isinstance(node, ast.Name):
        if node.id in env:
            return env[node.id]
        raise Unfoldable(node.id)
    if isinstance(node, ast.UnaryOp) and isinstance(node.op, ast.USub):
        return -_pyeval(node.operand, env)
    if isinstance(node, ast.UnaryOp) and isinstance(node.op, ast.Not):
        return not _pyeval(node.operand, env)
    if isinstance(node, ast.BinOp):
        a, b = _pyeval(node.left, env), _pyeval(node.right, env)
        ops = {ast.Add: lambda: a + b, ast.Sub: lambda: a - b, ast.Mult: lambda: a * b, ast.Pow: lambda: a ** b,
               ast.FloorDiv: lambda: a // b, ast.Mod: lambda: a % b}
        if type(node.op) in ops:
            return ops[type(node.op)]()
    if isinstance(node, ast.BoolOp):
        vals = [_pyeval(v, env) for v in node.values]
        return all(vals) if isinstance(node.op, ast.And) else any(vals)
    if isinstance(node, ast.Compare):
        left = _pyeval(node.left, env)
        for op, c in zip(node.ops, node.comparators):
            right = _pyeval(c, env)
            ok = {ast.Eq: left == right, ast.NotEq: left != right, ast.Lt: None, ast.LtE: None, ast.Gt: None, ast.GtE: None,
                  ast.In: None, ast.NotIn: None}
            t = type(op)
            if t in (ast.Lt, ast.LtE, ast.Gt, ast.GtE):
                r = {ast.Lt: left < right, ast.LtE: left <= right, ast.Gt: left > right, ast.GtE: left >= right}[t]
            elif t in (ast.In, ast.NotIn):
                r = (left in right) if t is ast.In else (left not in right)
            elif t in (ast.Is, ast.IsNot):
                r = (left is right) if t is ast.Is else (left is not right)
            else:
                r = ok[t]
            if not r:
                return False
            left = right
        return True
    if isinstance(node, ast.IfExp):
        return _pyeval(node.body if _pyeval(node.test, env) else node.orelse, env)
    if isinstance(node, ast.Call) and isinstance(node.func, ast.Attribute) and node.func.attr == "format":
        fmt = _pyeval(node.func.value, env)
        return fmt.format(*[_pyeval(a, env) for a in node.args])
    if isinstance(node, ast.Call) and isinstance(node.func, ast.Name) and node.func.id == "str" and len(node.args) == 1:
        return str(_pyeval(node.args[0], env))
    raise Unfoldable(ast.unparse(node))


def renderconst(repo):
    """R-RENDERCONST (C05/C01): the text `_render_integer(v)` produces is a C++ expression whose value is v.
    For the values at every edge of the four candidate types (and their neighbours) the function body is followed
    with v bound — the `if` on the special case is decided, the format strings are filled — and the resulting C++
    text `static_cast<T>(<expr>)` is folded by the typed C++ folder (literal suffix rules included): the value must be
    v, representable in T, and a decimal literal too large for `long long` / `unsigned long long` is reported."""
    from .. import cppexpr as X
    res = RuleResult("R-RENDERCONST")
    m = repo.mod(HG)
    f = m.funcs.get("_render_integer")
    if f is None:
        raise AnalysisError("header_generator._render_integer vanished")

    def cpp_type(v):
        for name, (lo, hi) in (("::std::int32_t", (-2**31, 2**31 - 1)), ("::std::uint32_t", (0, 2**32 - 1)),
                               ("::std::int64_t", (-2**63, 2**63 - 1)), ("::std::uint64_t", (0, 2**64 - 1))):
            if lo <= v <= hi:
                return name
        return None

    def run(stmts, env):
        for st in stmts:
            if isinstance(st, ast.Assign) and isinstance(st.targets[0], ast.Name):
                if isinstance(st.value, ast.Call) and (call_name(st.value) or "").startswith("_cpp_integer_type_for_range"):
                    env[st.targets[0].id] = cpp_type(env["value"])
                else:
                    env[st.targets[0].id] = _pyeval(st.value, env)
            elif isinstance(st, ast.If):
                r = run(st.body if _pyeval(st.test, env) else st.orelse, env)
                if r is not None:
                    return r
            elif isinstance(st, ast.Return):
                return _pyeval(st.value, env)
            elif isinstance(st, (ast.Assert, ast.Expr)):
                continue
            else:
                raise Unfoldable(type(st).__name__)
        return None

    edges = sorted({e + d for e in (-2**63, -2**31, 0, 2**31, 2**32, 2**63, 2**64 - 1) for d in (-2, -1, 0, 1, 2)
                    if -2**63 <= e + d <= 2**64 - 1} | {7, -7, 10**18, -10**18})
    pname = f.node.args.args[0].arg
    for v in edges:
        res.instances += 1
        try:
            text = run(f.node.body, {pname: v, "value": v})
        except Unfoldable as u:
            raise AnalysisError(f"_render_integer: cannot follow `{u}`")
        mm = re.fullmatch(r"static_cast<\s*(?:/\*\*/)?\s*(::std::u?int\d+_t)\s*>\((.*)\)", text or "")
        if not mm:
            res.add(f"{HG}|_render_integer|shape|{v}", f"_render_integer({v}) gives `{text}`, not static_cast<T>(<literal expression>)", HG, f.line, f.name)
            continue
        tname, expr = mm.groups()
        t = X.BUILTIN_TYPES[tname.replace("::std::", "")]
        try:
            val = X.evaluate(X.parse(expr), X.Env())
            got = val.v
            fits = t.lo <= got <= t.hi
        except X.UB as u:
            got, fits = f"undefined behaviour ({u})", False
        except X.Unsupported as u:
            got, fits = f"not a valid literal expression ({u})", False
        if got != v or not fits:
            res.add(f"{HG}|_render_integer|value", f"_render_integer({v}) gives `{text}`, which denotes {got}: the constant the front end "
                    "folded is not the constant the generated code contains", HG, f.line, f.name)
            break
    res.samples = [f"{len(edges)} edge values rendered and folded back"]
    res.analysed = [HG]
    return res


# ---- R-NEGEXP: no power with a negative exponent on an unchecked width ------------------------------------
def negexp(repo):
    """R-NEGEXP (C16): the leaf-range function of expression_bounds runs before the width requirements of the prelude
    types are checked, so it sees every width the grammar can express, including 0.  In Python `2 ** -1` is the float
    0.5; it ends up in a decimal string and crashes the next pass.  For every power whose exponent depends on the
    width parameter, the function is followed with the width bound to 0: either an earlier guard leaves the function,
    or the exponent must be non-negative."""
    res = RuleResult("R-NEGEXP")
    m = repo.mod(EB)
    f = None
    for g in m.top_funcs():
        ps = [a.arg for a in g.node.args.args]
        if any(isinstance(n, ast.BinOp) and isinstance(n.op, ast.Pow) for n in walk_no_nested_funcs(g.node)) and \
                any(p in ("type_size", "size", "bits") for p in ps):
            f = g
            break
    if f is None:
        raise AnalysisError("expression_bounds: the leaf-range function (powers of the type size) was not found")
    wparam = next(p for p in [a.arg for a in f.node.args.args] if p in ("type_size", "size", "bits"))

    def leaves_for(width):
        """True if a top-level guard before the powers returns for this width."""
        for st in f.node.body:
            if isinstance(st, ast.If) and isinstance(st.body[-1], ast.Return):
                try:
                    if _pyeval(st.test, {wparam: width}):
                        return True
                except Unfoldable:
                    continue
                except TypeError:
                    continue
        return False

    for n in walk_no_nested_funcs(f.node):
        if isinstance(n, ast.BinOp) and isinstance(n.op, ast.Pow) and any(isinstance(x, ast.Name) and x.id == wparam for x in ast.walk(n.right)):
            res.instances += 1
            for width in (0,):
                if leaves_for(width):
                    continue
                try:
                    e = _pyeval(n.right, {wparam: width})
                except Unfoldable:
                    continue
                if e < 0:
                    res.add(f"{EB}|{f.name}|{ast.unparse(n)}", f"{f.name} evaluates `{ast.unparse(n)}` for a type of width {width} (exponent "
                            f"{e}): the result is a float, the bound becomes a non-integer string and the next pass dies with a "
                            "ValueError instead of the compiler reporting the illegal width", EB, n.lineno, f.name)
    if res.instances < 3:
        raise AnalysisError(f"{f.name}: only {res.instances} width-dependent powers found")
    res.samples = [f"{f.name}: {res.instances} powers of `{wparam}`, none reached with a negative exponent"]
    res.analysed = [EB]
    return res
