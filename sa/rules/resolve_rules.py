"""R-PATHEND (C12): a field reference `a.b.c` denotes the object named by the LAST element of its path.  Every
lookup of the object behind a field reference (`find_object*(<ref>.path[k], ir)`) must use k == -1; k == 0 is
the start of a component-by-component walk and is accepted only in a function that also iterates
`<ref>.path[1:]`."""
from __future__ import annotations

import ast

from ..pyfacts import call_name, walk_no_nested_funcs
from ..report import AnalysisError, RuleResult

LOOKUPS = ("find_object", "find_object_or_none", "find_parent_object")


def pathend(repo):
    res = RuleResult("R-PATHEND")
    for m in repo.modules.values():
        for f in m.funcs.values():
            walks = set()
            for n in walk_no_nested_funcs(f.node):
                if isinstance(n, (ast.For, ast.comprehension)) and isinstance(n.iter, ast.Subscript) \
                        and isinstance(n.iter.slice, ast.Slice) and isinstance(n.iter.value, ast.Attribute) and n.iter.value.attr == "path":
                    lo = n.iter.slice.lower
                    if isinstance(lo, ast.Constant) and lo.value == 1 and n.iter.slice.upper is None:
                        walks.add(ast.unparse(n.iter.value.value))
            for n in walk_no_nested_funcs(f.node):
                if not (isinstance(n, ast.Call) and (call_name(n) or "").split(".")[-1] in LOOKUPS and n.args):
                    continue
                a = n.args[0]
                if not (isinstance(a, ast.Subscript) and isinstance(a.value, ast.Attribute) and a.value.attr == "path"):
                    continue
                try:
                    k = ast.literal_eval(a.slice)
                except Exception:
                    continue
                base = ast.unparse(a.value.value)
                res.instances += 1
                if k == -1:
                    continue
                if k == 0 and base in walks:
                    if len(res.samples) < 3:
                        res.samples.append(f"{f.qualname}: walk from {base}.path[0] over {base}.path[1:]")
                    continue
                res.add(f"{m.rel}|{f.qualname}|{base}.path[{k}]", f"{f.qualname} looks up the object behind `{base}` through "
                        f"path[{k}]; a field reference denotes its last component (path[-1]).  For references with more than one "
                        "component (a.b, or the aliases generated for anonymous bits) the lookup continues from the wrong object",
                        m.rel, n.lineno, f.qualname)
    if res.instances < 4:
        raise AnalysisError(f"only {res.instances} field-reference lookups found")
    res.analysed = sorted({m.rel for m in repo.modules.values()})[:0] or ["compiler/front_end/*.py", "compiler/back_end/cpp/header_generator.py"]
    return res
