"""R-PATHEND (C12): a field reference `a.b.c` denotes the object named by the LAST element of its path.  Every
lookup of the object behind a field reference (`find_object*(<ref>.path[k], ir)`) must use k == -1; k == 0 is
the start of a component-by-component walk and is accepted only in a function that also iterates
`<ref>.path[1:]`."""
from __future__ import annotations

import ast

from ..pyfacts import call_name, walk_no_nested_funcs
from ..report import AnalysisError, RuleResult

LOOKUPS = ("find_object", "find_object_or_none", "find_parent_object")


def pathend(repo):
    res = RuleResult("R-PATHEND")
    for m in repo.modules.values():
        for f in m.funcs.values():
            walks = set()
            for n in walk_no_nested_funcs(f.node):
                if isinstance(n, (ast.For, ast.comprehension)) and isinstance(n.iter, ast.Subscript) \
                        and isinstance(n.iter.slice, ast.Slice) and isinstance(n.iter.value, ast.Attribute) and n.iter.value.attr == "path":
                    lo = n.iter.slice.lower
                    if isinstance(lo, ast.Constant) and lo.value == 1 and n.iter.slice.upper is None:
                        walks.add(ast.unparse(n.iter.value.value))
            for n in walk_no_nested_funcs(f.node):
                if not (isinstance(n, ast.Call) and (call_name(n) or "").split(".")[-1] in LOOKUPS and n.args):
                    continue
                a = n.args[0]
                if not (isinstance(a, ast.Subscript) and isinstance(a.value, ast.Attribute) and a.value.attr == "path"):
                    continue
                try:
                    k = ast.literal_eval(a.slice)
                except Exception:
                    continue
                base = ast.unparse(a.value.value)
                res.instances += 1
                if k == -1:
                    continue
                if k == 0 and base in walks:
                    if len(res.samples) < 3:
                        res.samples.append(f"{f.qualname}: walk from {base}.path[0] over {base}.path[1:]")
                    continue
                res.add(f"{m.rel}|{f.qualname}|{base}.path[{k}]", f"{f.qualname} looks up the object behind `{base}` through "
                        f"path[{k}]; a field reference denotes its last component (path[-1]).  For references with more than one "
                        "component (a.b, or the aliases generated for anonymous bits) the lookup continues from the wrong object",
                        m.rel, n.lineno, f.qualname)
    if res.instances < 4:
        raise AnalysisError(f"only {res.instances} field-reference lookups found")
    res.analysed = sorted({m.rel for m in repo.modules.values()})[:0] or ["compiler/front_end/*.py", "compiler/back_end/cpp/header_generator.py"]
    return res


def visible(repo):
    """R-VISIBLE (C12): only anonymous imports (the prelude) are searched for unqualified names.  In the function
    that builds a module's `visible_scopes`, every scope made from an import (`CanonicalName(module_file=<import>.file_name.text)`)
    must be added under a test that the import has no local name; a named import reached without that test makes its
    top-level names (and its own import aliases) resolvable without qualification and creates ambiguities with the
    importer's own names."""
    res = RuleResult("R-VISIBLE")
    m = repo.mod("compiler/front_end/symbol_resolver.py")
    target = None
    for f in m.top_funcs():
        src = m.seg(f.node)
        if "visible_scopes" in src and "foreign_import" in src:
            target = f
    if target is None:
        raise AnalysisError("symbol_resolver: the function computing a module's visible scopes was not found")
    f = target

    def anonymous_test(t, var):
        """t is true only for imports without a local name."""
        if isinstance(t, ast.BoolOp) and isinstance(t.op, ast.And):
            return any(anonymous_test(v, var) for v in t.values)
        if isinstance(t, ast.UnaryOp) and isinstance(t.op, ast.Not):
            return ast.unparse(t.operand) in (f"{var}.local_name.text", f"{var}.local_name")
        if isinstance(t, ast.Compare) and len(t.ops) == 1 and isinstance(t.ops[0], ast.Eq) \
                and ast.unparse(t.left) == f"{var}.local_name.text" and isinstance(t.comparators[0], ast.Constant) and t.comparators[0].value == "":
            return True
        return False

    sites = 0
    for n in walk_no_nested_funcs(f.node):
        if isinstance(n, ast.Call) and (call_name(n) or "").endswith("CanonicalName"):
            mf = next((k.value for k in n.keywords if k.arg == "module_file"), None)
            if mf is None or not ast.unparse(mf).endswith(".file_name.text"):
                continue
            var = ast.unparse(mf)[:-len(".file_name.text")]
            sites += 1
            res.instances += 1
            guarded = False
            cur = n
            while cur is not f.node:
                par = m.parent(cur)
                if par is None:
                    break
                if isinstance(par, ast.If) and any(cur is x or cur in ast.walk(x) for x in par.body) and anonymous_test(par.test, var):
                    guarded = True
                if isinstance(par, (ast.ListComp, ast.GeneratorExp, ast.SetComp)):
                    for g in par.generators:
                        if isinstance(g.target, ast.Name) and g.target.id == var and any(anonymous_test(c, var) for c in g.ifs):
                            guarded = True
                cur = par
            if not guarded:
                res.add(f"{m.rel}|{f.name}|named-import-visible", f"{f.name} adds the scope of every import `{var}` to the scopes that are "
                        f"searched for unqualified names, not only of imports without a local name: names of `import \"x.emb\" as x` "
                        "resolve without `x.`, and a type with the same name in both modules becomes ambiguous", m.rel, n.lineno, f.name)
            else:
                res.samples.append(f"{f.name}: import scopes only under `not {var}.local_name.text`")
    if sites == 0:
        raise AnalysisError(f"{f.name}: no scope is built from an import")
    res.analysed = [m.rel]
    return res


def scopevis(repo, schema=None, sites=None):
    """R-SCOPEVIS (C12): visibility classes of the symbol table, as documented on `_Scope`: SEARCHABLE names are found from
    any scope on the search list (type names, module and import names); names that belong to a structure or enum — fields,
    runtime parameters, enum values — are LOCAL (or PRIVATE for abbreviations and the `$` builtin) so that they are not
    found from nested types.  Every scope-registration action is classified by the IR node kind its traversal is
    registered for; an action for Field, RuntimeParameter or EnumValue must never register SEARCHABLE, an action for
    TypeDefinition must."""
    from ..irschema import Schema
    from . import traversal as T
    res = RuleResult("R-SCOPEVIS")
    schema = schema or Schema(repo)
    sites = sites if sites is not None else T.collect_sites(repo, schema)
    m = repo.mod("compiler/front_end/symbol_resolver.py")
    kind_of = {}
    for s_ in sites:
        if s_.module.rel != m.rel or s_.action is None or not s_.pattern:
            continue
        kind_of.setdefault(s_.action.name, set()).add(s_.pattern[-1])
    inner = {"Field", "RuntimeParameter", "EnumValue"}
    for f in m.top_funcs():
        kinds = kind_of.get(f.name)
        if not kinds:
            continue
        vis = [n for n in walk_no_nested_funcs(f.node) if isinstance(n, ast.Attribute) and isinstance(n.value, ast.Name)
               and n.value.id == "_Scope" and n.attr in ("LOCAL", "PRIVATE", "SEARCHABLE")]
        for v in vis:
            res.instances += 1
            if kinds & inner and v.attr == "SEARCHABLE":
                res.add(f"{m.rel}|{f.name}|{v.attr}", f"{f.name} (registered for {sorted(kinds)} nodes) makes a name SEARCHABLE: a field, parameter or "
                        "enum value name then resolves from every nested type (false \"Ambiguous name\" for a nested field of the same "
                        "name, and a nested use of the outer name is no longer rejected)", m.rel, v.lineno, f.name)
            if kinds == {"TypeDefinition"} and v.attr != "SEARCHABLE":
                res.add(f"{m.rel}|{f.name}|{v.attr}", f"{f.name} registers a type name as {v.attr}: types are referenced from other scopes and must "
                        "be SEARCHABLE", m.rel, v.lineno, f.name)
    if res.instances < 4:
        raise AnalysisError(f"symbol_resolver: only {res.instances} visibility constants in registration actions")
    res.samples = [f"{sorted((k, sorted(v)) for k, v in kind_of.items() if 'scope' in k)[:6]}"]
    res.analysed = [m.rel]
    return res
