"""R-PATHEND (C12): a field reference `a.b.c` denotes the object named by the LAST element of its path.  Every
lookup of the object behind a field reference (`find_object*(<ref>.path[k], ir)`) must use k == -1; k == 0 is
the start of a component-by-component walk and is accepted only in a function that also iterates
`<ref>.path[1:]`."""
from __future__ import annotations

import ast

from ..pyfacts import call_name, walk_no_nested_funcs
from ..report import AnalysisError, RuleResult

LOOKUPS = ("find_object", "find_object_or_none", "find_parent_object")


def pathend(repo, modules=None):
    res = RuleResult("R-PATHEND")
    for m in repo.modules.values():
        if modules is not None and m.rel not in modules:
            continue
        for f in m.funcs.values():
            # locals bound exactly once to `<ref>.path[k]` are followed into the lookup call
            bound = {}
            for n in walk_no_nested_funcs(f.node):
                if isinstance(n, ast.Assign) and len(n.targets) == 1 and isinstance(n.targets[0], ast.Name):
                    bound.setdefault(n.targets[0].id, []).append(n.value)
            walks = set()
            for n in walk_no_nested_funcs(f.node):
                if isinstance(n, (ast.For, ast.comprehension)) and isinstance(n.iter, ast.Subscript) \
                        and isinstance(n.iter.slice, ast.Slice) and isinstance(n.iter.value, ast.Attribute) and n.iter.value.attr == "path":
                    lo = n.iter.slice.lower
                    if isinstance(lo, ast.Constant) and lo.value == 1 and n.iter.slice.upper is None:
                        walks.add(ast.unparse(n.iter.value.value))
            for n in walk_no_nested_funcs(f.node):
                if not (isinstance(n, ast.Call) and (call_name(n) or "").split(".")[-1] in LOOKUPS and n.args):
                    continue
                a = n.args[0]
                if isinstance(a, ast.Name) and len(bound.get(a.id, ())) == 1:
                    a = bound[a.id][0]
                if not (isinstance(a, ast.Subscript) and isinstance(a.value, ast.Attribute) and a.value.attr == "path"):
                    continue
                try:
                    k = ast.literal_eval(a.slice)
                except Exception:
                    continue
                base = ast.unparse(a.value.value)
                res.instances += 1
                if k == -1:
                    continue
                if k == 0 and base in walks:
                    if len(res.samples) < 3:
                        res.samples.append(f"{f.qualname}: walk from {base}.path[0] over {base}.path[1:]")
                    continue
                res.add(f"{m.rel}|{f.qualname}|{base}.path[{k}]", f"{f.qualname} looks up the object behind `{base}` through "
                        f"path[{k}]; a field reference denotes its last component (path[-1]).  For references with more than one "
                        "component (a.b, or the aliases generated for anonymous bits) the lookup continues from the wrong object",
                        m.rel, n.lineno, f.qualname)
    if res.instances < (4 if modules is None else 1) and not res.findings:
        raise AnalysisError(f"only {res.instances} field-reference lookups found")
    res.analysed = sorted({m.rel for m in repo.modules.values()})[:0] or ["compiler/front_end/*.py", "compiler/back_end/cpp/header_generator.py"]
    return res


def visible(repo):
    """R-VISIBLE (C12): only anonymous imports (the prelude) are searched for unqualified names.  In the function
    that builds a module's `visible_scopes`, every scope made from an import (`CanonicalName(module_file=<import>.file_name.text)`)
    must be added under a test that the import has no local name; a named import reached without that test makes its
    top-level names (and its own import aliases) resolvable without qualification and creates ambiguities with the
    importer's own names."""
    res = RuleResult("R-VISIBLE")
    m = repo.mod("compiler/front_end/symbol_resolver.py")
    target = None
    for f in m.top_funcs():
        src = m.seg(f.node)
        if "visible_scopes" in src and "foreign_import" in src:
            target = f
    if target is None:
        raise AnalysisError("symbol_resolver: the function computing a module's visible scopes was not found")
    f = target

    def anonymous_test(t, var):
        """t is true only for imports without a local name."""
        if isinstance(t, ast.BoolOp) and isinstance(t.op, ast.And):
            return any(anonymous_test(v, var) for v in t.values)
        if isinstance(t, ast.UnaryOp) and isinstance(t.op, ast.Not):
            return ast.unparse(t.operand) in (f"{var}.local_name.text", f"{var}.local_name")
        if isinstance(t, ast.Compare) and len(t.ops) == 1 and isinstance(t.ops[0], ast.Eq) \
                and ast.unparse(t.left) == f"{var}.local_name.text" and isinstance(t.comparators[0], ast.Constant) and t.comparators[0].value == "":
            return True
        return False

    sites = 0
    for n in walk_no_nested_funcs(f.node):
        if isinstance(n, ast.Call) and (call_name(n) or "").endswith("CanonicalName"):
            mf = next((k.value for k in n.keywords if k.arg == "module_file"), None)
            if mf is None or not ast.unparse(mf).endswith(".file_name.text"):
                continue
            var = ast.unparse(mf)[:-len(".file_name.text")]
            sites += 1
            res.instances += 1
            guarded = False
            cur = n
            while cur is not f.node:
                par = m.parent(cur)
                if par is None:
                    break
                if isinstance(par, ast.If) and any(cur is x or cur in ast.walk(x) for x in par.body) and anonymous_test(par.test, var):
                    guarded = True
                if isinstance(par, (ast.ListComp, ast.GeneratorExp, ast.SetComp)):
                    for g in par.generators:
                        if isinstance(g.target, ast.Name) and g.target.id == var and any(anonymous_test(c, var) for c in g.ifs):
                            guarded = True
                cur = par
            if not guarded:
                res.add(f"{m.rel}|{f.name}|named-import-visible", f"{f.name} adds the scope of every import `{var}` to the scopes that are "
                        f"searched for unqualified names, not only of imports without a local name: names of `import \"x.emb\" as x` "
                        "resolve without `x.`, and a type with the same name in both modules becomes ambiguous", m.rel, n.lineno, f.name)
            else:
                res.samples.append(f"{f.name}: import scopes only under `not {var}.local_name.text`")
    if sites == 0:
        raise AnalysisError(f"{f.name}: no scope is built from an import")
    res.analysed = [m.rel]
    return res


def scopevis(repo, schema=None, sites=None):
    """R-SCOPEVIS (C12): visibility classes of the symbol table, as documented on `_Scope`: SEARCHABLE names are found from
    any scope on the search list (type names, module and import names); names that belong to a structure or enum — fields,
    runtime parameters, enum values — are LOCAL (or PRIVATE for abbreviations and the `$` builtin) so that they are not
    found from nested types.  Every scope-registration action is classified by the IR node kind its traversal is
    registered for; an action for Field, RuntimeParameter or EnumValue must never register SEARCHABLE, an action for
    TypeDefinition must."""
    from ..irschema import Schema
    from . import traversal as T
    res = RuleResult("R-SCOPEVIS")
    schema = schema or Schema(repo)
    sites = sites if sites is not None else T.collect_sites(repo, schema)
    m = repo.mod("compiler/front_end/symbol_resolver.py")
    kind_of = {}
    for s_ in sites:
        if s_.module.rel != m.rel or s_.action is None or not s_.pattern:
            continue
        kind_of.setdefault(s_.action.name, set()).add(s_.pattern[-1])
    inner = {"Field", "RuntimeParameter", "EnumValue"}
    for f in m.top_funcs():
        kinds = kind_of.get(f.name)
        if not kinds:
            continue
        vis = [n for n in walk_no_nested_funcs(f.node) if isinstance(n, ast.Attribute) and isinstance(n.value, ast.Name)
               and n.value.id == "_Scope" and n.attr in ("LOCAL", "PRIVATE", "SEARCHABLE")]
        for v in vis:
            res.instances += 1
            if kinds & inner and v.attr == "SEARCHABLE":
                res.add(f"{m.rel}|{f.name}|{v.attr}", f"{f.name} (registered for {sorted(kinds)} nodes) makes a name SEARCHABLE: a field, parameter or "
                        "enum value name then resolves from every nested type (false \"Ambiguous name\" for a nested field of the same "
                        "name, and a nested use of the outer name is no longer rejected)", m.rel, v.lineno, f.name)
            if kinds == {"TypeDefinition"} and v.attr != "SEARCHABLE":
                res.add(f"{m.rel}|{f.name}|{v.attr}", f"{f.name} registers a type name as {v.attr}: types are referenced from other scopes and must "
                        "be SEARCHABLE", m.rel, v.lineno, f.name)
    if res.instances < 4:
        raise AnalysisError(f"symbol_resolver: only {res.instances} visibility constants in registration actions")
    res.samples = [f"{sorted((k, sorted(v)) for k, v in kind_of.items() if 'scope' in k)[:6]}"]
    res.analysed = [m.rel]
    return res


def scopechain(repo):
    """R-SCOPECHAIN (C12): lexical scoping.  Every traversal action of the symbol resolver that opens a scope (returns
    a dict with "visible_scopes") and receives the inherited `visible_scopes` must return `(own scope,) + visible_scopes`:
    the whole inherited list, unsliced and unfiltered (a name visible outside stays visible -- and stays *ambiguous* --
    inside), with the new scope first (the search in _find_target_of_reference goes innermost to outermost) and equal to
    the returned "current_scope"."""
    res = RuleResult("R-SCOPECHAIN")
    m = repo.mod("compiler/front_end/symbol_resolver.py")
    for f in m.top_funcs():
        params = [a.arg for a in f.node.args.args]
        for n in walk_no_nested_funcs(f.node):
            if not (isinstance(n, ast.Return) and isinstance(n.value, ast.Dict)):
                continue
            d = {k.value: v for k, v in zip(n.value.keys, n.value.values) if isinstance(k, ast.Constant)}
            if "visible_scopes" not in d:
                continue
            v = d["visible_scopes"]
            if "visible_scopes" not in params:
                # the root of the chain (module level): nothing to inherit
                res.samples.append(f"{f.name}: root of the scope chain")
                continue
            res.instances += 1
            key = f"{m.rel}|{f.name}"
            operands = []

            def flat(e):
                if isinstance(e, ast.BinOp) and isinstance(e.op, ast.Add):
                    flat(e.left)
                    flat(e.right)
                else:
                    operands.append(e)
            flat(v)
            bare = [o for o in operands if isinstance(o, ast.Name) and o.id == "visible_scopes"]
            if not bare:
                used = [ast.unparse(o) for o in operands if any(isinstance(x, ast.Name) and x.id == "visible_scopes" for x in ast.walk(o))]
                res.add(key + "|inherit", f"{f.name} builds its scope list from `{used[0] if used else ast.unparse(v)}` instead of the "
                        "whole inherited `visible_scopes`: names visible in an enclosing scope (types nested in the enclosing "
                        "structure) are no longer found, and names that were ambiguous silently bind to an outer definition",
                        m.rel, n.lineno, f.name)
                continue
            first = operands[0]
            cur = d.get("current_scope")
            if not (isinstance(first, ast.Tuple) and len(first.elts) == 1 and operands[-1] is bare[-1]):
                res.add(key + "|order", f"{f.name} does not put its own scope first: `{ast.unparse(v)}` (search order is innermost "
                        "to outermost)", m.rel, n.lineno, f.name)
            elif cur is not None and ast.unparse(first.elts[0]) != ast.unparse(cur):
                res.add(key + "|own", f"{f.name}: first searched scope `{ast.unparse(first.elts[0])}` is not the returned "
                        f"current_scope `{ast.unparse(cur)}`", m.rel, n.lineno, f.name)
    # the lookup sees the whole chain: every caller of the function that searches `visible_scopes` (and reports a name
    # found twice as ambiguous) hands on its own `visible_scopes` / `current_scope` parameters as they are -- a caller
    # that passes `(current_scope,)` resolves a name that is also visible from an outer scope by precedence
    lookups = [f for f in m.top_funcs() if "visible_scopes" in [a.arg for a in f.node.args.args]
               and any(isinstance(n, ast.For) and isinstance(n.iter, ast.Name) and n.iter.id == "visible_scopes" for n in walk_no_nested_funcs(f.node))
               and "ambiguous_name_error" in ast.unparse(f.node)]
    if len(lookups) != 1:
        raise AnalysisError(f"symbol_resolver: {len(lookups)} functions search visible_scopes and report ambiguity (expected 1)")
    lk = lookups[0]
    lparams = [a.arg for a in lk.node.args.args]
    ncalls = 0
    for f in m.top_funcs():
        if f is lk:
            continue
        fparams = [a.arg for a in f.node.args.args]
        for c in walk_no_nested_funcs(f.node):
            if not (isinstance(c, ast.Call) and call_name(c) == lk.name):
                continue
            ncalls += 1
            bound = dict(zip(lparams, c.args))
            bound.update({k.arg: k.value for k in c.keywords if k.arg})
            for pname in ("visible_scopes", "current_scope"):
                res.instances += 1
                a = bound.get(pname)
                if a is None or not (isinstance(a, ast.Name) and a.id == pname and pname in fparams):
                    res.add(f"{m.rel}|{f.name}|lookup-{pname}", f"{f.name} calls {lk.name} with {pname}=`{ast.unparse(a) if a is not None else '?'}` "
                            f"instead of the `{pname}` the traversal handed it: the search no longer covers every visible scope, so a name "
                            "that is also defined in an outer scope (an import alias, a type of the enclosing structure) is bound by "
                            "precedence instead of being rejected as ambiguous" if pname == "visible_scopes" else
                            f"{f.name} calls {lk.name} with {pname}=`{ast.unparse(a) if a is not None else '?'}`: private names "
                            "(abbreviations) are matched against the wrong scope", m.rel, c.lineno, f.name)
    if ncalls < 2 and not res.findings:
        raise AnalysisError(f"only {ncalls} calls of {lk.name} found")
    if res.instances < 2 and not res.findings:
        raise AnalysisError(f"only {res.instances} scope-opening actions found in symbol_resolver")
    res.analysed = [m.rel]
    return res


# --- R-REFKIND ---------------------------------------------------------------------------------------------------
REFKIND_REVIEWED = {
    # (module, function, variable): (reason the object can only be a Field at this site,
    #                                (module, function) that must keep an isinstance(..., RuntimeParameter) test)
    ("compiler/front_end/expression_bounds.py", "_compute_constraints_of_existence_function", "field"):
        ("the argument of $present was checked by type_check._kind_check_field_reference, which rejects parameters "
         "(fix 930c8c6); bounds are only computed for modules that passed type checking",
         ("compiler/front_end/type_check.py", "_kind_check_field_reference")),
}


def _terminates(body):
    return bool(body) and isinstance(body[-1], (ast.Return, ast.Raise, ast.Continue, ast.Break))


def refkind(repo, schema, modules=None):
    """R-REFKIND (C16/C13): the name a field reference starts or ends with can denote a Field *or* a RuntimeParameter
    (both live in the structure's local scope).  An object looked up from a path element of a field reference
    (`find_object(<ref>.path[k], ir)`, directly or through one local) therefore has one of two classes, and an attribute
    that only `Field` declares in ir_data.py (read_transform, existence_condition, location, write_method, ...) may be
    read from it only where an isinstance test has excluded parameters: `isinstance(v, ir_data.Field)` in the enclosing
    condition (or an earlier operand of the same `and`), or an earlier `if isinstance(v, ir_data.RuntimeParameter):`
    block that leaves the function/loop.  `ir_util.field_is_virtual(v)` is not such a test (it is true for parameters:
    they have no `location`)."""
    res = RuleResult("R-REFKIND")
    field_only = set(schema.classes["Field"]) - set(schema.classes["RuntimeParameter"])
    if "read_transform" not in field_only or "existence_condition" not in field_only:
        raise AnalysisError("ir_data.py: Field/RuntimeParameter no longer differ in read_transform/existence_condition")
    reviewed = set()
    for key, (reason, (gmod, gfn)) in REFKIND_REVIEWED.items():
        gm = repo.mod(gmod)
        gf = [f for f in gm.funcs.values() if f.qualname == gfn]
        ok = gf and any(isinstance(n, ast.Call) and call_name(n) == "isinstance" and len(n.args) == 2
                        and ast.unparse(n.args[1]).endswith("RuntimeParameter") for n in ast.walk(gf[0].node))
        res.instances += 1
        if ok:
            reviewed.add(key)
    for m in repo.modules.values():
        if not m.rel.startswith("compiler/") or (modules is not None and m.rel not in modules):
            continue
        for f in m.funcs.values():
            bound = {}
            for n in walk_no_nested_funcs(f.node):
                if isinstance(n, ast.Assign) and len(n.targets) == 1 and isinstance(n.targets[0], ast.Name):
                    bound.setdefault(n.targets[0].id, []).append(n)

            def is_path_elem(e, depth=0):
                if isinstance(e, ast.Name) and depth < 2 and len(bound.get(e.id, ())) == 1:
                    return is_path_elem(bound[e.id][0].value, depth + 1)
                return isinstance(e, ast.Subscript) and isinstance(e.value, ast.Attribute) and e.value.attr == "path" \
                    and not isinstance(e.slice, ast.Slice)

            tracked = {}
            for name, assigns in bound.items():
                for a in assigns:
                    v = a.value
                    if isinstance(v, ast.Call) and (call_name(v) or "").split(".")[-1] in ("find_object", "find_object_or_none") \
                            and v.args and is_path_elem(v.args[0]):
                        tracked.setdefault(name, a.lineno)
            if not tracked:
                continue
            for name, assigns in bound.items():      # plain aliases of a tracked object: `field = referrent`
                if name not in tracked and all(isinstance(a.value, ast.Name) and a.value.id in tracked for a in assigns):
                    tracked[name] = assigns[0].lineno

            def isinstance_of(t, var, cls):
                return isinstance(t, ast.Call) and call_name(t) == "isinstance" and len(t.args) == 2 \
                    and isinstance(t.args[0], ast.Name) and t.args[0].id == var and ast.unparse(t.args[1]).endswith(cls)

            def positive_guard(test, var):
                """test being true implies var is a Field."""
                if isinstance_of(test, var, "Field"):
                    return True
                if isinstance(test, ast.BoolOp) and isinstance(test.op, ast.And):
                    return any(positive_guard(v, var) for v in test.values)
                if isinstance(test, ast.UnaryOp) and isinstance(test.op, ast.Not):
                    return isinstance_of(test.operand, var, "RuntimeParameter")
                return False

            def negative_guard(test, var):
                """test being false implies var is a Field (used for else branches / early exits)."""
                if isinstance_of(test, var, "RuntimeParameter"):
                    return True
                if isinstance(test, ast.BoolOp) and isinstance(test.op, ast.Or):
                    return any(negative_guard(v, var) for v in test.values)
                if isinstance(test, ast.UnaryOp) and isinstance(test.op, ast.Not):
                    return isinstance_of(test.operand, var, "Field")
                return False

            def scan(stmts, guarded):
                guarded = set(guarded)
                for st in stmts:
                    if isinstance(st, ast.Assign) and len(st.targets) == 1 and isinstance(st.targets[0], ast.Name) \
                            and st.targets[0].id in tracked:
                        check_expr(st.value, guarded)
                        if isinstance(st.value, ast.Name) and st.value.id in guarded:
                            guarded.add(st.targets[0].id)          # alias of an object already known to be a Field
                        else:
                            guarded.discard(st.targets[0].id)      # rebinding: the new object is unclassified again
                        continue
                    if isinstance(st, (ast.If, ast.While)):
                        check_expr(st.test, guarded)
                        pos = {v for v in tracked if positive_guard(st.test, v)}
                        neg = {v for v in tracked if negative_guard(st.test, v)}
                        scan(st.body, guarded | pos)
                        scan(st.orelse, guarded | neg)
                        if isinstance(st, ast.If):
                            if _terminates(st.body):
                                guarded |= neg
                            if st.orelse and _terminates(st.orelse):
                                guarded |= pos
                        continue
                    if isinstance(st, ast.Assert):
                        check_expr(st.test, guarded)
                        continue
                    if isinstance(st, (ast.For, ast.With, ast.Try)):
                        for fld in ("iter", "items"):
                            x = getattr(st, fld, None)
                            if isinstance(x, ast.AST):
                                check_expr(x, guarded)
                        for blk in ("body", "orelse", "finalbody"):
                            scan(getattr(st, blk, []) or [], guarded)
                        for h in getattr(st, "handlers", []):
                            scan(h.body, guarded)
                        continue
                    if isinstance(st, (ast.FunctionDef, ast.ClassDef)):
                        continue
                    check_expr(st, guarded)

            def check_expr(e, guarded):
                # `a and b`: b is evaluated only when a is true; `x if c else y` likewise
                if isinstance(e, ast.BoolOp) and isinstance(e.op, ast.And):
                    g = set(guarded)
                    for v in e.values:
                        check_expr(v, g)
                        g |= {t for t in tracked if positive_guard(v, t)}
                    return
                if isinstance(e, ast.BoolOp) and isinstance(e.op, ast.Or):
                    g = set(guarded)
                    for v in e.values:
                        check_expr(v, g)
                        g |= {t for t in tracked if negative_guard(v, t)}
                    return
                if isinstance(e, ast.IfExp):
                    check_expr(e.test, guarded)
                    check_expr(e.body, guarded | {t for t in tracked if positive_guard(e.test, t)})
                    check_expr(e.orelse, guarded | {t for t in tracked if negative_guard(e.test, t)})
                    return
                if isinstance(e, ast.Attribute) and isinstance(e.value, ast.Name) and e.value.id in tracked \
                        and e.attr in field_only:
                    res.instances += 1
                    var = e.value.id
                    if var not in guarded and (m.rel, f.qualname, var) not in reviewed:
                        res.add(f"{m.rel}|{f.qualname}|{var}.{e.attr}", f"{f.qualname} reads `{var}.{e.attr}` from an object looked up "
                                f"through a field-reference path element (line {tracked[var]}); the name may denote a runtime "
                                f"parameter, which has no `{e.attr}`: AttributeError (a traceback) on `p.x`, `$present(p)` or an "
                                "alias of a parameter instead of a diagnostic.  No isinstance test excludes parameters on this path "
                                "(field_is_virtual() is true for parameters)", m.rel, e.lineno, f.qualname)
                    return
                for c in ast.iter_child_nodes(e):
                    if isinstance(c, (ast.FunctionDef, ast.Lambda)):
                        continue
                    check_expr(c, guarded)

            scan(f.node.body, set())
            if len(res.samples) < 6:
                res.samples.append(f"{f.qualname}: {sorted(tracked)}")
    if res.instances < (3 if modules is None else 2) and not res.findings:
        raise AnalysisError(f"only {res.instances} Field-only attribute reads on path lookups found")
    res.analysed = ["compiler/front_end/*.py", "compiler/back_end/cpp/header_generator.py", "compiler/util/ir_data.py"]
    return res


# --- R-ONEOFGUARD ------------------------------------------------------------------------------------------------
ONEOF_REVIEWED = {
    # (module, function, "<base>.<member>"): reason the member is always set at this site (reviewed by reading callers)
    ("compiler/front_end/expression_bounds.py", "_set_integer_constraints_from_physical_type", "physical_type.atomic_type"):
        "only called when expression.type is `integer`; type_check types a reference integer only from an atomic type "
        "(array-typed fields and parameters are opaque)",
    ("compiler/front_end/constraints.py", "_check_early_type_requirements_for_parameter_type", "physical_type.atomic_type"):
        "type_check._annotate_parameter_type rejects array parameters ('Parameters cannot be arrays.') and the pipeline "
        "stops before constraints",
    ("compiler/front_end/constraints.py", "_check_physical_type_requirements", "type_ir.atomic_type"):
        "documented precondition ('the given atomic type_ir'); both callers pass an atomic type: "
        "_check_type_requirements_for_field returns early unless type_ir.has_field('atomic_type'), the parameter caller "
        "runs after array parameters were rejected",
    ("compiler/front_end/synthetics.py", "_add_anonymous_aliases", "field.type.atomic_type"):
        "only for field.name.is_anonymous: module_ir creates anonymous fields for `bits:` blocks with an atomic type naming "
        "the synthesised subtype",
}


ONEOF_MODULES = ("compiler/front_end/type_check.py", "compiler/front_end/expression_bounds.py",
                 "compiler/front_end/symbol_resolver.py", "compiler/front_end/constraints.py",
                 "compiler/front_end/attribute_checker.py", "compiler/front_end/synthetics.py", "compiler/util/ir_util.py",
                 "compiler/back_end/cpp/header_generator.py", "compiler/front_end/write_inference.py")


def oneofguard(repo, modules=ONEOF_MODULES):
    """R-ONEOFGUARD (C16/C13): `Type` is a oneof of atomic_type / array_type.  Reading an attribute *through* one
    member (`t.atomic_type.reference`) yields None.<attr> -> AttributeError when the other member is set, so in the
    listed modules every such read must be dominated by a test that names the same base expression: `t.has_field(
    "atomic_type")`, `t.which_type == "atomic_type"`, the negative forms with an early exit, an assert of either, or
    the base being `ir_util.get_base_type(...)` (which strips the array layers).  Sites whose precondition is
    established by a caller are listed in ONEOF_REVIEWED with the reason."""
    res = RuleResult("R-ONEOFGUARD")
    MEMBERS = ("atomic_type", "array_type")
    OTHER = {"atomic_type": "array_type", "array_type": "atomic_type"}

    def facts_of(test):
        """(positive, negative): sets of (base, member) known when test is true / false."""
        pos, neg = set(), set()
        if isinstance(test, ast.Call) and isinstance(test.func, ast.Attribute) and test.func.attr == "has_field" and test.args \
                and isinstance(test.args[0], ast.Constant) and test.args[0].value in MEMBERS:
            b, mem = ast.unparse(test.func.value), test.args[0].value
            pos.add((b, mem))
            neg.add((b, OTHER[mem]))
        elif isinstance(test, ast.Compare) and len(test.ops) == 1 and isinstance(test.left, ast.Attribute) \
                and test.left.attr in ("which_type",) and isinstance(test.comparators[0], ast.Constant) \
                and test.comparators[0].value in MEMBERS:
            b, mem = ast.unparse(test.left.value), test.comparators[0].value
            if isinstance(test.ops[0], ast.Eq):
                pos.add((b, mem))
                neg.add((b, OTHER[mem]))
            elif isinstance(test.ops[0], ast.NotEq):
                neg.add((b, mem))
                pos.add((b, OTHER[mem]))
        elif isinstance(test, ast.Call) and (call_name(test) or "").split(".")[-1] == "is_array" and len(test.args) == 1:
            b = ast.unparse(test.args[0])          # ir_util.is_array(t) == t.has_field("array_type")
            pos.add((b, "array_type"))
            neg.add((b, "atomic_type"))
        elif isinstance(test, ast.UnaryOp) and isinstance(test.op, ast.Not):
            p, n = facts_of(test.operand)
            pos, neg = n, p
        elif isinstance(test, ast.BoolOp) and isinstance(test.op, ast.And):
            for v in test.values:
                pos |= facts_of(v)[0]
        elif isinstance(test, ast.BoolOp) and isinstance(test.op, ast.Or):
            for v in test.values:
                neg |= facts_of(v)[1]
        return pos, neg

    for rel in modules:
        m = repo.mod(rel)
        for f in m.funcs.values():
            def check_expr(e, known):
                if isinstance(e, ast.BoolOp):
                    k = set(known)
                    for v in e.values:
                        check_expr(v, k)
                        p, n = facts_of(v)
                        k |= p if isinstance(e.op, ast.And) else n
                    return
                if isinstance(e, ast.IfExp):
                    p, n = facts_of(e.test)
                    check_expr(e.test, known)
                    check_expr(e.body, known | p)
                    check_expr(e.orelse, known | n)
                    return
                if isinstance(e, ast.Attribute) and isinstance(e.ctx, ast.Load) and isinstance(e.value, ast.Attribute) \
                        and e.value.attr in MEMBERS:
                    base = ast.unparse(e.value.value)
                    mem = e.value.attr
                    res.instances += 1
                    ok = (base, mem) in known or "get_base_type(" in base or "builder(" in base
                    key = (m.rel, f.qualname, f"{base}.{mem}")
                    if not ok and key not in ONEOF_REVIEWED:
                        res.add(f"{m.rel}|{f.qualname}|{base}.{mem}", f"{f.qualname} reads `{ast.unparse(e)}` but nothing on this path "
                                f"establishes that `{base}` holds its `{mem}` member: for the other kind of type the read is "
                                "None.<attr> -> AttributeError (a traceback instead of a diagnostic)", m.rel, e.lineno, f.qualname)
                    check_expr(e.value.value, known)
                    return
                for c in ast.iter_child_nodes(e):
                    if not isinstance(c, (ast.FunctionDef, ast.Lambda)):
                        check_expr(c, known)

            def scan(stmts, known):
                known = set(known)
                for st in stmts:
                    if isinstance(st, (ast.If, ast.While)):
                        check_expr(st.test, known)
                        p, n = facts_of(st.test)
                        scan(st.body, known | p)
                        scan(st.orelse, known | n)
                        if isinstance(st, ast.If):
                            if _terminates(st.body):
                                known |= n
                            if st.orelse and _terminates(st.orelse):
                                known |= p
                        continue
                    if isinstance(st, ast.Assert):
                        check_expr(st.test, known)
                        known |= facts_of(st.test)[0]
                        continue
                    if isinstance(st, (ast.For, ast.With, ast.Try)):
                        for fld in ("iter",):
                            x = getattr(st, fld, None)
                            if isinstance(x, ast.AST):
                                check_expr(x, known)
                        for blk in ("body", "orelse", "finalbody"):
                            scan(getattr(st, blk, []) or [], known)
                        for h in getattr(st, "handlers", []):
                            scan(h.body, known)
                        continue
                    if isinstance(st, (ast.FunctionDef, ast.ClassDef)):
                        continue
                    check_expr(st, known)
                    if isinstance(st, ast.Assign):
                        # rebinding a name invalidates what was known about expressions rooted in it
                        for t in st.targets:
                            if isinstance(t, ast.Name):
                                known = {(b, mm) for b, mm in known if b.split(".")[0] != t.id}
                                # `x = ir_util.get_base_type(...)`: the array layers are stripped, what is left is atomic
                                if isinstance(st.value, ast.Call) and (call_name(st.value) or "").split(".")[-1] == "get_base_type":
                                    known.add((t.id, "atomic_type"))
                return known
            scan(f.node.body, set())
    res.analysed = list(modules)
    return res


def canonname(repo):
    """R-CANONNAME (C13, C12): a canonical name is the pair (module_file, object_path).  A test that recognises a
    *particular* definition by comparing a whole `object_path` with a literal (`tuple(x.object_path) == ("Flag",)`) must
    also constrain `module_file` of the same name in the same condition; otherwise a definition with the same path in
    another module is mistaken for it (an imported `enum Flag` typed as the prelude's boolean Flag).  Comparisons of a
    path *element* with a `$`-name are exempt: user definitions cannot contain `$`."""
    res = RuleResult("R-CANONNAME")
    for m in repo.modules.values():
        if not m.rel.startswith("compiler/"):
            continue
        for f in m.funcs.values():
            parents = {}
            for n in ast.walk(f.node):
                for c in ast.iter_child_nodes(n):
                    parents[id(c)] = n
            for n in walk_no_nested_funcs(f.node):
                if not (isinstance(n, ast.Compare) and len(n.ops) == 1 and isinstance(n.ops[0], (ast.Eq, ast.NotEq, ast.In, ast.NotIn))):
                    continue
                sides = [n.left, n.comparators[0]]
                path_side = None
                for s_ in sides:
                    x = s_
                    if isinstance(x, ast.Call) and call_name(x) in ("tuple", "list") and x.args:
                        x = x.args[0]
                    if isinstance(x, ast.Attribute) and x.attr == "object_path":
                        path_side = x
                if path_side is None:
                    continue
                other = [s_ for s_ in sides if path_side not in list(ast.walk(s_))]
                lits = [c.value for o in other for c in ast.walk(o) if isinstance(c, ast.Constant) and isinstance(c.value, str)]
                if not lits or all(v.startswith("$") for v in lits):
                    continue
                res.instances += 1
                base = ast.unparse(path_side.value)
                # the enclosing condition: climb through BoolOp/Not to the test expression
                top = n
                while isinstance(parents.get(id(top)), (ast.BoolOp, ast.UnaryOp)):
                    top = parents[id(top)]
                cond = ast.unparse(top)
                if base + ".module_file" not in cond:
                    res.add(f"{m.rel}|{f.qualname}|{lits[0]}", f"{f.qualname} recognises the definition {lits} by `{ast.unparse(n)}` alone: the "
                            f"condition does not look at `{base}.module_file`, so a type with the same name in any other module "
                            "(reachable through an import) is treated as this one", m.rel, n.lineno, f.qualname)
    if res.instances < 1 and not res.findings:
        raise AnalysisError("no object_path comparison with a definition name found (the Flag special case moved?)")
    res.analysed = ["compiler/**/*.py"]
    return res


def refhead(repo):
    """R-REFHEAD (C16/C12): the first name of a field reference is looked up like any other name, and the symbol table
    also holds import aliases (snake_case like fields).  An alias resolves to a *module* -- canonical name with an empty
    object_path -- which no later pass can handle (dependency graph KeyError, `.read_transform` on a Module).  So the
    function that resolves the head of a field reference must test the target's `object_path` and leave with an error
    before it stores the canonical name; delegating to the generic _resolve_reference stores it unconditionally."""
    res = RuleResult("R-REFHEAD")
    m = repo.mod("compiler/front_end/symbol_resolver.py")
    fs = [f for f in m.top_funcs() if f.name == "_resolve_head_of_field_reference"]
    if not fs:
        raise AnalysisError("symbol_resolver._resolve_head_of_field_reference not found")
    f = fs[0]
    res.instances = 1
    stores = [n for n in walk_no_nested_funcs(f.node) if isinstance(n, ast.Call) and isinstance(n.func, ast.Attribute)
              and n.func.attr == "CopyFrom" and "canonical_name" in ast.unparse(n)]
    delegates = [n for n in walk_no_nested_funcs(f.node) if isinstance(n, ast.Call) and (call_name(n) or "") == "_resolve_reference"]
    guard = None
    for n in walk_no_nested_funcs(f.node):
        if isinstance(n, ast.If) and "object_path" in ast.unparse(n.test) and n.body and isinstance(n.body[-1], ast.Return) \
                and "errors.append" in ast.unparse(n):
            guard = n
    ok = bool(stores) and guard is not None and all(guard.lineno < s_.lineno for s_ in stores) and not delegates
    if not ok:
        res.add(f"{m.rel}|_resolve_head_of_field_reference|module-head", "the head of a field reference is given the canonical name of "
                "whatever the lookup finds, including the module an import alias stands for (empty object_path): `import \"n.emb\" as "
                "n` / `0 [+n] UInt:8[] x` ends with KeyError / AttributeError instead of a diagnostic", m.rel, f.node.lineno, f.name)
    res.analysed = [m.rel]
    return res


def constrefkind(repo, schema=None, sites=None):
    """R-CONSTREFKIND (C12/C16): a `constant_reference` can only be consumed when it denotes an enum value, a (virtual) field
    or a runtime parameter -- type_check._type_check_constant_reference ends in `assert False` for anything else and the
    dependency graph has no node for it.  The grammar does not prevent other targets: the type generated for an inline
    field `a_b` is named `AB`, which is spelled like a constant.  So the symbol resolver must reject a constant
    reference whose target is a TypeDefinition: a traversal over [Expression] in _resolve_symbols_from_table whose action
    tests `constant_reference` and `isinstance(<looked-up object>, ir_data.TypeDefinition)` and appends an error."""
    from . import traversal as T
    from ..irschema import Schema
    res = RuleResult("R-CONSTREFKIND")
    m = repo.mod("compiler/front_end/symbol_resolver.py")
    tc = repo.mod("compiler/front_end/type_check.py")
    consumer = [f for f in tc.top_funcs() if f.name == "_type_check_constant_reference"]
    if not consumer or "assert False" not in ast.unparse(consumer[0].node):
        res.samples.append("type_check no longer asserts on unexpected constant reference kinds")
        res.instances = 1
        return res
    drv = [f for f in m.top_funcs() if f.name == "_resolve_symbols_from_table"]
    if not drv:
        raise AnalysisError("symbol_resolver._resolve_symbols_from_table not found")
    res.instances = 2
    ok = False
    for n in walk_no_nested_funcs(drv[0].node):
        if isinstance(n, ast.Call) and (call_name(n) or "").endswith("fast_traverse_ir_top_down") and len(n.args) >= 3 \
                and ast.unparse(n.args[1]).replace(" ", "") == "[ir_data.Expression]" and isinstance(n.args[2], ast.Name):
            act = m.funcs.get(n.args[2].id)
            if act is not None:
                src = ast.unparse(act.node)
                if "constant_reference" in src and "TypeDefinition" in src and "isinstance" in src and "errors.append" in src:
                    ok = True
    if not ok:
        res.add(f"{m.rel}|_resolve_symbols_from_table|type-as-constant", "nothing rejects a constant reference that resolves to a type "
                "definition (`let y = Foo.AB` where `AB` is the type of the inline field `a_b`): KeyError in the dependency checker / "
                "`assert False` in type_check instead of a diagnostic", m.rel, drv[0].node.lineno, drv[0].name)
    res.analysed = [m.rel, tc.rel]
    return res


def scopefill(repo):
    """R-SCOPEFILL (C12): every definition is entered into the scope it belongs to.  In symbol_resolver.py the calls that
    enter names (`_add_name_to_scope`, `_add_name_to_scope_and_normalize`) may be conditional on the *presence* of the
    optional part being entered (`x.has_field("abbreviation")`) and on nothing else: a condition on the location
    (`is_synthetic`), on the spelling or on the kind of name silently leaves definitions out -- the members of an anonymous
    `bits` keep their abbreviations in the anonymous type's own scope, where sibling members use them, and those names
    are marked synthetic by the desugaring pass."""
    res = RuleResult("R-SCOPEFILL")
    m = repo.mod("compiler/front_end/symbol_resolver.py")
    adders = {f.name for f in m.top_funcs() if f.name.startswith("_add_name_to_scope")}
    if len(adders) < 2:
        raise AnalysisError(f"symbol_resolver: scope-filling helpers found: {sorted(adders)}")
    for f in m.top_funcs():
        if f.name in adders:
            continue
        for c in walk_no_nested_funcs(f.node):
            if not (isinstance(c, ast.Call) and call_name(c) in adders):
                continue
            res.instances += 1
            node = c
            while node is not None and node is not f.node:
                parent = m.parent(node)
                if isinstance(parent, (ast.If, ast.IfExp)):
                    t = parent.test
                    conj = t.values if isinstance(t, ast.BoolOp) and isinstance(t.op, ast.And) else [t]
                    for cj in conj:
                        ok = isinstance(cj, ast.Call) and isinstance(cj.func, ast.Attribute) and cj.func.attr == "has_field"
                        if not ok:
                            res.add(f"{m.rel}|{f.name}|{ast.unparse(cj)[:50]}", f"{f.name} enters `{ast.unparse(c.args[0]) if c.args else '?'}` into the "
                                    f"scope only when `{ast.unparse(cj)[:70]}`: definitions for which this is false are left out and every "
                                    "reference to them fails with 'No candidate' (abbreviations of anonymous-bits members, used by "
                                    "their siblings, have synthetic locations)", m.rel, parent.lineno, f.name)
                node = parent
    # scopes only grow: a duplicate definition is detected by finding the earlier entry still there
    for f in m.top_funcs():
        params = {a.arg for a in f.node.args.args}
        scopes = {p for p in params if "scope" in p}
        if not scopes:
            continue
        res.instances += 1
        for n in walk_no_nested_funcs(f.node):
            tgt = None
            if isinstance(n, ast.Delete):
                for t in n.targets:
                    if isinstance(t, ast.Subscript):
                        tgt = t.value
            elif isinstance(n, ast.Call) and isinstance(n.func, ast.Attribute) and n.func.attr in ("pop", "popitem", "clear"):
                tgt = n.func.value
            if tgt is None:
                continue
            root = tgt
            while isinstance(root, (ast.Attribute, ast.Subscript)):
                root = root.value
            if isinstance(root, ast.Name) and (root.id in scopes or "scope" in root.id):
                res.add(f"{m.rel}|{f.name}|remove", f"{f.name} removes an entry from a scope (`{ast.unparse(n)[:70]}`): the duplicate-name "
                        "check relies on finding the earlier definition in the scope, so a name defined twice is then accepted "
                        "and silently bound to the later definition", m.rel, n.lineno, f.name)
    if res.instances < 5 and not res.findings:
        raise AnalysisError(f"only {res.instances} scope insertions found")
    res.analysed = [m.rel]
    return res
