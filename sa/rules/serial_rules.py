"""C18 rules: R-SERIALTYPES, R-SRCLOC, R-DRIVERS."""
from __future__ import annotations

import ast

from ..irschema import Schema
from ..pyfacts import Repo, call_name, dotted_name, walk_no_nested_funcs
from ..report import AnalysisError, RuleResult

UTILS = "compiler/util/ir_data_utils.py"
PTYPES = "compiler/util/parser_types.py"
JSON_NATIVE = {"str", "int", "bool"}


def serialtypes(repo, schema=None):
    res = RuleResult("R-SERIALTYPES")
    schema = schema or Schema(repo)
    for cls, fld, ann in schema.unsupported:
        res.add(f"annotation|{cls}.{fld}", f"{cls}.{fld}: annotation `{ann}` is not one of the shapes the field-spec "
                "builder understands (Optional[T], list[T], T)", "compiler/util/ir_data.py")
    m = repo.mod(UTILS)
    to_f = m.funcs.get("IrDataSerializer._to_dict")
    from_f = m.funcs.get("IrDataSerializer._from_dict")
    if not to_f or not from_f:
        raise AnalysisError("ir_data_utils: IrDataSerializer._to_dict/_from_dict vanished")
    to_src, from_src = m.seg(to_f.node), m.seg(from_f.node)
    leaf = {}
    for cls, fields in schema.classes.items():
        for f in fields.values():
            leaf.setdefault(f.type, []).append(f"{cls}.{f.name}")
    for t, users in sorted(leaf.items()):
        res.instances += 1
        if t in JSON_NATIVE or t in schema.classes:
            continue
        short = t.split(".")[-1]
        if t in schema.enums:
            bases = schema.bases.get(t, [])
            if "int" not in bases and "str" not in bases:
                if short not in to_src:
                    res.add(f"to|{t}", f"enum {t} (used by {users[0]}) is not JSON-native and _to_dict has no conversion for it",
                            UTILS, to_f.line, "_to_dict")
            if short not in from_src and "is_enum" not in from_src:
                res.add(f"from|{t}", f"enum {t} (used by {users[0]}) is read back as a plain int/str: _from_dict has no "
                        "conversion for it (the re-read IR differs from the original)", UTILS, from_f.line, "_from_dict")
            continue
        # any other leaf type needs a conversion branch in both directions
        if short not in to_src:
            res.add(f"to|{t}", f"leaf type {t} (used by {users[0]}) has no conversion branch in _to_dict: json.dumps fails "
                    "or writes a form that cannot be read back", UTILS, to_f.line, "_to_dict")
        if short not in from_src:
            res.add(f"from|{t}", f"leaf type {t} (used by {users[0]}) has no conversion branch in _from_dict", UTILS,
                    from_f.line, "_from_dict")
    # _to_dict must keep False/0/"" (only None is unset) and recurse into sequences
    res.instances += 3
    if "if value is not None" not in to_src:
        res.add("to|unset-test", "_to_dict no longer distinguishes unset (None) from falsy values", UTILS, to_f.line, "_to_dict")
    if "is not None" not in from_src:
        res.add("from|unset-test", "_from_dict no longer keeps falsy values (tests truthiness instead of `is not None`)",
                UTILS, from_f.line, "_from_dict")
    if "is_sequence" not in to_src or "is_sequence" not in from_src:
        res.add("sequence", "sequence fields are not converted element by element in both directions", UTILS)
    # to_json uses exclude_none (unset fields omitted) and from_json parses with json.loads
    tj = m.funcs.get("IrDataSerializer.to_json")
    fj = m.funcs.get("IrDataSerializer.from_json")
    if tj is None or fj is None:
        raise AnalysisError("ir_data_utils: to_json/from_json vanished")
    res.samples = [f"{t}: {u[:2]}" for t, u in sorted(leaf.items()) if t not in schema.classes][:5]
    res.detail = {"leaf_types": sorted(t for t in leaf if t not in schema.classes)}
    res.analysed = [UTILS, "compiler/util/ir_data.py"]
    return res


def srcloc(repo):
    """Flag characters appended by SourceLocation.__str__ are stripped by from_str in reverse order
    with the same flag <-> character mapping."""
    res = RuleResult("R-SRCLOC")
    m = repo.mod(PTYPES)
    s = m.funcs.get("SourceLocation.__str__")
    p = m.funcs.get("SourceLocation.from_str")
    if not s or not p:
        raise AnalysisError("parser_types: SourceLocation.__str__/from_str vanished")
    appended = []  # (flag, char)
    for st in s.node.body:
        if isinstance(st, ast.If) and isinstance(st.test, ast.Attribute) and isinstance(st.test.value, ast.Name) \
                and st.test.value.id == "self":
            for b in st.body:
                if isinstance(b, ast.AugAssign) and isinstance(b.op, ast.Add) and isinstance(b.value, ast.Constant):
                    appended.append((st.test.attr, b.value.value))
    stripped = []
    for n in walk_no_nested_funcs(p.node):
        if isinstance(n, ast.If) and isinstance(n.test, ast.Compare) and isinstance(n.test.comparators[0], ast.Constant) \
                and ast.unparse(n.test.left).endswith("[-1]"):
            ch = n.test.comparators[0].value
            flag = None
            strips = False
            for b in n.body:
                if isinstance(b, ast.Assign) and isinstance(b.value, ast.Constant) and b.value.value is True:
                    flag = b.targets[0].id
                if isinstance(b, ast.Assign) and ast.unparse(b.value).endswith("[:-1]"):
                    strips = True
            stripped.append((flag, ch, strips, n.lineno))
    stripped.sort(key=lambda x: x[3])
    res.instances = len(appended) + len(stripped) + 1
    if len(appended) < 2:
        raise AnalysisError("SourceLocation.__str__: flag suffixes not found")
    want = [(f, c) for f, c in reversed(appended)]
    have = [(f, c) for f, c, _, _ in stripped]
    if want != have:
        res.add("srcloc|order", f"__str__ appends {appended} but from_str strips {have}: a location carrying both flags "
                "(or a swapped mapping) does not survive the text form", PTYPES, p.line, "from_str")
    for f, c, strips, line in stripped:
        if not strips:
            res.add(f"srcloc|strip|{c}", f"from_str recognises '{c}' but does not remove it", PTYPES, line, "from_str")
    # constructor keywords use matching names
    for n in walk_no_nested_funcs(p.node):
        if isinstance(n, ast.Call) and call_name(n) == "SourceLocation":
            for k in n.keywords:
                if k.arg in ("is_synthetic", "is_disjoint_from_parent") and ast.unparse(k.value) != k.arg:
                    res.add(f"srcloc|kw|{k.arg}", f"from_str passes {ast.unparse(k.value)} as {k.arg}", PTYPES, n.lineno, "from_str")
    # every text produced by __str__ carries the flag suffix: one return, and it interpolates the suffix variable
    rets = [n for n in walk_no_nested_funcs(s.node) if isinstance(n, ast.Return)]
    res.instances += 1
    sufvar = None
    for st in s.node.body:
        if isinstance(st, ast.Assign) and isinstance(st.value, ast.Constant) and st.value.value == "" and isinstance(st.targets[0], ast.Name):
            sufvar = st.targets[0].id
    for r_ in rets:
        names = {x.id for x in ast.walk(r_) if isinstance(x, ast.Name)}
        if sufvar is None or sufvar not in names:
            res.add("srcloc|str-without-flags", f"__str__ returns `{ast.unparse(r_.value)[:60]}` without the flag suffix: for those locations "
                    "(e.g. the coordinate-less, synthetic 0:0-0:0*) the flags are not written, so the re-read IR differs from the one "
                    "that was written", PTYPES, r_.lineno, "__str__")
    # every location built by from_str carries every flag it parsed
    flags = [f for f, _, _, _ in stripped if f]
    for n in walk_no_nested_funcs(p.node):
        if isinstance(n, ast.Return) and isinstance(n.value, ast.Call) and call_name(n.value) in ("SourceLocation", "cls"):
            res.instances += 1
            have_kw = {k.arg for k in n.value.keywords}
            if len(n.value.args) >= 4 or any(k.arg is None for k in n.value.keywords):
                continue
            for f in flags:
                if f not in have_kw:
                    res.add(f"srcloc|dropped|{f}", f"from_str returns `{ast.unparse(n.value)[:60]}` without {f}: the flag was parsed "
                            "from the text but is lost, so __str__ of the result differs from the input (the flags are "
                            "independent of the coordinates: synthesized nodes carry 0:0-0:0*)", PTYPES, n.lineno, "from_str")
    # start-end separator and position form
    ssrc, psrc = m.seg(s.node), m.seg(p.node)
    if '{self.start}-{self.end}' not in ssrc or 'split("-")' not in psrc:
        res.add("srcloc|separator", "__str__ and from_str no longer agree on the `start-end` form", PTYPES, s.line)
    res.samples = [f"appended {appended}", f"stripped {have}"]
    res.analysed = [PTYPES]
    return res


def locencode(repo):
    """Any encoder of SourceLocation flags other than SourceLocation.__str__ itself (for instance an inlined
    formatter in the JSON serializer) must write the flags independently of each other and with __str__'s
    characters: from_str is the only decoder, and it accepts any combination."""
    res = RuleResult("R-LOCENCODE")
    m = repo.mod(PTYPES)
    s = m.funcs.get("SourceLocation.__str__")
    if not s:
        raise AnalysisError("parser_types: SourceLocation.__str__ vanished")
    chars = {}
    for st in s.node.body:
        if isinstance(st, ast.If) and isinstance(st.test, ast.Attribute):
            for b in st.body:
                if isinstance(b, ast.AugAssign) and isinstance(b.value, ast.Constant):
                    chars[st.test.attr] = b.value.value
    if len(chars) < 2:
        raise AnalysisError("SourceLocation.__str__: flag suffixes not found")
    flags = set(chars)

    def flags_in(node):
        return {n.attr for n in ast.walk(node) if isinstance(n, ast.Attribute) and n.attr in flags}

    def chars_in(node):
        return {n.value for n in ast.walk(node) if isinstance(n, ast.Constant) and isinstance(n.value, str) and n.value in chars.values()}

    nfun = 0
    for mod in repo.modules.values():
        for f in mod.funcs.values():
            if mod.rel == PTYPES and f.qualname.startswith("SourceLocation."):
                continue
            nfun += 1
            body_flags = set()
            for n in walk_no_nested_funcs(f.node):
                if isinstance(n, ast.Attribute) and n.attr in flags:
                    body_flags.add(n.attr)
            if not body_flags or not chars_in(f.node):
                continue
            res.instances += 1
            for n in walk_no_nested_funcs(f.node):
                if isinstance(n, (ast.IfExp, ast.If)):
                    tf = flags_in(n.test)
                    if len(tf) != 1:
                        continue
                    (flag,) = tf
                    orelse = n.orelse if isinstance(n.orelse, list) else [n.orelse]
                    body = n.body if isinstance(n.body, list) else [n.body]
                    others = set()
                    for o in orelse:
                        others |= flags_in(o) - {flag}
                        others |= {k for k, c in chars.items() if k != flag and c in chars_in(o)}
                    if others:
                        res.add(f"{mod.rel}|{f.qualname}|exclusive|{flag}", f"{f.qualname} writes the suffix for "
                                f"{sorted(others)} only when {flag} is false: a location carrying both flags loses one in the "
                                "text form and is not read back equal", mod.rel, n.lineno, f.qualname)
                    got = set()
                    for b in body:
                        got |= chars_in(b)
                    negated = isinstance(n.test, ast.UnaryOp) and isinstance(n.test.op, ast.Not)
                    if got and not negated and chars[flag] not in got:
                        res.add(f"{mod.rel}|{f.qualname}|char|{flag}", f"{f.qualname} writes {sorted(got)} for {flag}; "
                                f"SourceLocation.from_str reads {chars[flag]!r} for it", mod.rel, n.lineno, f.qualname)
    res.instances += 1  # the scan itself
    res.detail = {"functions_scanned": nfun, "flag_characters": chars}
    res.samples = [f"{nfun} functions scanned for private encoders of {sorted(flags)}"]
    res.analysed = [PTYPES, "compiler/util/ir_data_utils.py"]
    return res


def driverflags(repo):
    """R-DRIVERFLAGS (C18): a command-line option that both embossc and one of the split drivers define must be
    defined the same way (dest, action, default, type, nargs, choices), and neither driver may rewrite the parsed
    value afterwards — otherwise the same command line means different things to the two build paths (import
    search order, enum traits)."""
    res = RuleResult("R-DRIVERFLAGS")
    drivers = {"embossc": repo.mod("embossc"),
               "emboss_front_end": repo.mod("compiler/front_end/emboss_front_end.py"),
               "emboss_codegen_cpp": repo.mod("compiler/back_end/cpp/emboss_codegen_cpp.py")}
    opts = {}
    SEM = ("dest", "action", "default", "type", "nargs", "choices", "const", "required")
    for dname, m in drivers.items():
        table = {}
        for n in ast.walk(m.tree):
            if isinstance(n, ast.Call) and isinstance(n.func, ast.Attribute) and n.func.attr == "add_argument":
                names = [a.value for a in n.args if isinstance(a, ast.Constant) and isinstance(a.value, str)]
                long_ = [x for x in names if x.startswith("--")]
                if not long_:
                    continue
                kw = {k.arg: ast.unparse(k.value) for k in n.keywords if k.arg in SEM}
                table[long_[0]] = (tuple(sorted(names)), kw, n.lineno)
        if not table:
            raise AnalysisError(f"{m.rel}: no add_argument calls found")
        opts[dname] = table
        # no rewriting of parsed flags
        for f in m.funcs.values():
            parsed = set()
            for n in walk_no_nested_funcs(f.node):
                if isinstance(n, ast.Assign) and isinstance(n.value, ast.Call) and (call_name(n.value) or "").endswith(("parse_args", "_parse_args", "_parse_command_line")):
                    parsed |= {t.id for t in n.targets if isinstance(t, ast.Name)}
            for n in walk_no_nested_funcs(f.node):
                tg = []
                if isinstance(n, ast.Assign):
                    tg = n.targets
                elif isinstance(n, ast.AugAssign):
                    tg = [n.target]
                for t in tg:
                    if isinstance(t, ast.Attribute) and isinstance(t.value, ast.Name) and t.value.id in parsed:
                        res.add(f"{m.rel}|{f.qualname}|rewrite|{t.attr}", f"{f.qualname} rewrites the parsed option `{t.attr}` "
                                f"(`{ast.unparse(n)[:80]}`): the value no longer is what the shared option definition says, so this "
                                "driver and embossc interpret the same command line differently", m.rel, n.lineno, f.qualname)
                if isinstance(n, ast.Call) and isinstance(n.func, ast.Attribute) and n.func.attr in ("append", "insert", "extend", "reverse", "sort") \
                        and isinstance(n.func.value, ast.Attribute) and isinstance(n.func.value.value, ast.Name) and n.func.value.value.id in parsed:
                    res.add(f"{m.rel}|{f.qualname}|rewrite|{n.func.value.attr}", f"{f.qualname} mutates the parsed option "
                            f"`{n.func.value.attr}` in place", m.rel, n.lineno, f.qualname)
    # verbatim clause: what a driver hands to the shared entry points is the parsed option itself (flags.x or
    # flags.x[0]), never a value computed from it -- embossc and the split drivers must give the front end the same
    # module name (it becomes source_file_name, hence the include guard) and the same search path for one command line.
    ENTRY = ("parse_and_log_errors", "generate_headers_and_log_errors", "Config")

    def verbatim(e):
        if isinstance(e, ast.Subscript) and isinstance(e.slice, ast.Constant):
            e = e.value
        return isinstance(e, ast.Attribute) and isinstance(e.value, ast.Name)

    for dname, m in drivers.items():
        for f in m.funcs.values():
            bound = {}
            for n in walk_no_nested_funcs(f.node):
                if isinstance(n, ast.Assign) and len(n.targets) == 1 and isinstance(n.targets[0], ast.Name):
                    bound.setdefault(n.targets[0].id, []).append(n.value)
            flagvars = {k for k, v in bound.items() if any(isinstance(x, ast.Call) and (call_name(x) or "").endswith(
                ("parse_args", "_parse_args", "_parse_command_line")) for x in v)} | {"flags"}

            def from_flags(e, depth=0):
                for x in ast.walk(e):
                    if isinstance(x, ast.Attribute) and isinstance(x.value, ast.Name) and x.value.id in flagvars:
                        return True
                    if isinstance(x, ast.Name) and x.id in bound and x.id not in flagvars and depth < 3 \
                            and any(from_flags(v, depth + 1) for v in bound[x.id]):
                        return True
                return False

            for n in walk_no_nested_funcs(f.node):
                if not (isinstance(n, ast.Call) and (call_name(n) or "").split(".")[-1] in ENTRY):
                    continue
                for a in list(n.args) + [k.value for k in n.keywords]:
                    if not from_flags(a):
                        continue
                    res.instances += 1
                    e = a
                    if isinstance(e, ast.Name) and len(bound.get(e.id, ())) == 1 and e.id not in flagvars:
                        e = bound[e.id][0]
                    if isinstance(e, ast.Call) and (call_name(e) or "").split(".")[-1] in ENTRY:
                        continue   # a Config built from flags is checked at its own call
                    if not verbatim(e):
                        res.add(f"{m.rel}|{f.qualname}|computed|{(call_name(n) or '').split('.')[-1]}",
                                f"{f.qualname} hands `{ast.unparse(e)[:70]}` to {(call_name(n) or '').split('.')[-1]}: a value "
                                "computed from a command-line option instead of the option itself; the other build path passes "
                                "the option as typed, so the two paths compile different module names / search paths",
                                m.rel, n.lineno, f.qualname)
    # hand-off clause: the file named by --output-file is the only channel between the two programs of the split build
    # (build_defs.bzl: front end writes X, back end reads X).  Whether it is written may depend on --output-file alone:
    # under an `elif`/`else` of another option (`--output-ir-to-stdout`) that option silently suppresses the file and
    # the back end reads nothing -- or the file of an earlier build.
    for dname in ("emboss_front_end", "emboss_codegen_cpp"):
        m = drivers[dname]
        writes = [n for n in ast.walk(m.tree) if isinstance(n, ast.Call) and call_name(n) == "open" and len(n.args) >= 2
                  and isinstance(n.args[1], ast.Constant) and "w" in str(n.args[1].value)
                  and isinstance(n.args[0], ast.Attribute) and n.args[0].attr == "output_file"]
        if not writes:
            raise AnalysisError(f"{m.rel}: the statement writing --output-file was not found")
        for w in writes:
            res.instances += 1
            f = m.enclosing_func(w)
            node = w
            while node is not None and (f is None or node is not f.node):
                parent = m.parent(node)
                if isinstance(parent, ast.If):
                    in_body = any(node is st for st in parent.body)
                    names = {x.attr for x in ast.walk(parent.test) if isinstance(x, ast.Attribute)}
                    if not in_body or names - {"output_file"}:
                        res.add(f"{m.rel}|{f.qualname if f else '?'}|handoff", f"the write of --output-file is "
                                + (f"under the else/elif of `{ast.unparse(parent.test)[:50]}`" if not in_body else f"guarded by `{ast.unparse(parent.test)[:50]}`")
                                + ": another option decides whether the hand-off file exists, so `--output-ir-to-stdout --output-file X` "
                                "leaves X missing or stale and the split build generates nothing or the previous revision's header",
                                m.rel, parent.lineno, f.qualname if f else "")
                        break
                node = parent
    base = opts["embossc"]
    # options that reach compilation: flags.<dest> handed by embossc to the shared entry points
    shared = set()
    for n in ast.walk(drivers["embossc"].tree):
        if isinstance(n, ast.Call) and (call_name(n) or "").split(".")[-1] in ("parse_and_log_errors", "generate_headers_and_log_errors", "Config"):
            for x in ast.walk(n):
                if isinstance(x, ast.Attribute) and isinstance(x.value, ast.Name) and x.value.id == "flags":
                    shared.add(x.attr)
    if len(shared) < 3:
        raise AnalysisError(f"embossc: options handed to the shared entry points: {sorted(shared)}")

    def dest_of(opt, kw):
        return ast.literal_eval(kw["dest"]) if "dest" in kw else opt.lstrip("-").replace("-", "_")

    for dname in ("emboss_front_end", "emboss_codegen_cpp"):
        for opt, (names, kw, line) in sorted(opts[dname].items()):
            if opt not in base or dest_of(opt, base[opt][1]) not in shared:
                continue
            res.instances += 1
            bn, bkw, _ = base[opt]
            diffs = [f"{k}: embossc {bkw.get(k, '-')} / {dname} {kw.get(k, '-')}" for k in SEM if bkw.get(k) != kw.get(k)]
            if names != bn:
                diffs.append(f"spellings {bn} / {names}")
            if diffs:
                res.add(f"{drivers[dname].rel}|{opt}", f"option {opt} is defined differently by embossc and {dname}: {'; '.join(diffs)}",
                        drivers[dname].rel, line)
            elif len(res.samples) < 4:
                res.samples.append(f"{opt}: embossc == {dname} ({kw})")
    if res.instances < 3:
        raise AnalysisError(f"only {res.instances} shared options found")
    res.detail = {"options_reaching_compilation": sorted(shared)}
    res.analysed = [m.rel for m in drivers.values()]
    return res


def drivers(repo):
    """embossc and the split drivers reach parsing and header generation through the same entry points,
    with the same Config construction; the split drivers are connected by to_json / from_json(EmbossIr)."""
    res = RuleResult("R-DRIVERS")
    e = repo.mod("embossc")
    fe = repo.mod("compiler/front_end/emboss_front_end.py")
    cg = repo.mod("compiler/back_end/cpp/emboss_codegen_cpp.py")

    def calls(mod, fname):
        f = mod.funcs.get(fname)
        if f is None:
            raise AnalysisError(f"{mod.rel}: {fname} vanished")
        return f, [n for n in walk_no_nested_funcs(f.node) if isinstance(n, ast.Call)]

    ef, ecalls = calls(e, "main")
    res.instances = 6
    names = [call_name(c) or "" for c in ecalls]
    if not any(n.endswith("emboss_front_end.parse_and_log_errors") for n in names):
        res.add("embossc|front", "embossc does not parse through emboss_front_end.parse_and_log_errors", e.rel, ef.line, "main")
    if not any(n.endswith("emboss_codegen_cpp.generate_headers_and_log_errors") for n in names):
        res.add("embossc|back", "embossc does not generate through emboss_codegen_cpp.generate_headers_and_log_errors", e.rel, ef.line, "main")
    for n in names:
        if n.endswith(("header_generator.generate_header", "glue.parse_emboss_file", "glue.process_ir")):
            res.add(f"embossc|bypass|{n}", f"embossc calls {n} directly, bypassing the entry point the two-program path uses", e.rel, ef.line, "main")
    # same Config construction
    def config_expr(calls_):
        for c in calls_:
            if (call_name(c) or "").endswith("header_generator.Config"):
                return ast.unparse(c)
        return None
    cf, ccalls = calls(cg, "main")
    ce, cc = config_expr(ecalls), config_expr(ccalls)
    if ce is None or cc is None or ce != cc:
        res.add("config", f"embossc builds `{ce}`, emboss_codegen_cpp builds `{cc}`: the two build paths configure the "
                "back end differently", cg.rel, cf.line, "main")
    # the front-end driver main() parses through the same function and writes to_json of the whole IR
    ff, fcalls = calls(fe, "main")
    fnames = [call_name(c) or "" for c in fcalls]
    if "parse_and_log_errors" not in fnames:
        res.add("front|entry", "emboss_front_end.main does not use parse_and_log_errors", fe.rel, ff.line, "main")
    tojson = [c for c in fcalls if isinstance(c.func, ast.Attribute) and c.func.attr == "to_json"]
    if not tojson or not all(ast.unparse(c.func.value).endswith("IrDataSerializer(ir)") for c in tojson):
        res.add("front|to_json", "emboss_front_end.main does not write IrDataSerializer(ir).to_json()", fe.rel, ff.line, "main")
    if any(c.args or c.keywords for c in tojson):
        res.notes.append("to_json is called with formatting arguments")
    fromjson = [c for c in ccalls if (call_name(c) or "").endswith("IrDataSerializer.from_json")]
    if not fromjson or not all(c.args and ast.unparse(c.args[0]) == "ir_data.EmbossIr" for c in fromjson):
        res.add("back|from_json", "emboss_codegen_cpp.main does not read IrDataSerializer.from_json(ir_data.EmbossIr, …)", cg.rel, cf.line, "main")
    # generate_headers_and_log_errors delegates to header_generator.generate_header(ir, config)
    gf, gcalls = calls(cg, "generate_headers_and_log_errors")
    gh = [c for c in gcalls if (call_name(c) or "").endswith("header_generator.generate_header")]
    if not gh or [ast.unparse(a) for a in gh[0].args] != ["ir", "config"]:
        res.add("back|generate", "generate_headers_and_log_errors does not call header_generator.generate_header(ir, config)", cg.rel, gf.line)
    # parse_and_log_errors delegates to glue.parse_emboss_file
    pf, pcalls = calls(fe, "parse_and_log_errors")
    if not any((call_name(c) or "").endswith("glue.parse_emboss_file") for c in pcalls):
        res.add("front|parse", "parse_and_log_errors does not call glue.parse_emboss_file", fe.rel, pf.line)
    res.samples = [f"embossc.main -> {sorted(set(n for n in names if 'emboss_' in n))}", f"Config: {ce}"]
    res.analysed = [e.rel, fe.rel, cg.rel]
    return res


def control(repo):
    """An IR dataclass with a leaf type that has no converter (overlay of ir_data.py)."""
    src = repo.read("compiler/util/ir_data.py")
    new = src + '''

@dataclasses.dataclass
class VerifControl(Message):
    when: Optional[decimal.Decimal] = None
'''
    r2 = Repo(repo.root, overlay={"compiler/util/ir_data.py": new})
    return any("Decimal" in f.construct for f in serialtypes(r2).findings)


def serialfilter(repo):
    """R-SERIALFILTER (C18/C17): what the serialiser leaves out must be exactly what the deserialiser restores by
    default: unset fields (None) and empty lists.  Every predicate handed to `_fields_and_values` in ir_data_utils.py is
    evaluated (a small interpreter over `is`/`is not`/`==`/`not`/`and`/`or`/isinstance/len) on the sample values None,
    [], [0], False, True, 0, 1, "", "x": it must keep every value that is not None and -- where it filters lists at
    all -- drop only empty lists.  Dropping `False`, `0` or `""` loses a *set* field: `BooleanType.value = False` of an
    expression proven false no longer reaches a back end that runs in a second process."""
    res = RuleResult("R-SERIALFILTER")
    rel = "compiler/util/ir_data_utils.py"
    m = repo.mod(rel)
    samples = [None, [], [0], False, True, 0, 1, "", "x"]

    class Unsupported(Exception):
        pass

    def ev(e, var, v):
        if isinstance(e, ast.Name):
            if e.id == var:
                return v
            if e.id == "list":
                return list
            raise Unsupported(e.id)
        if isinstance(e, ast.Constant):
            return e.value
        if isinstance(e, ast.UnaryOp) and isinstance(e.op, ast.Not):
            return not ev(e.operand, var, v)
        if isinstance(e, ast.BoolOp):
            r = None
            for x in e.values:
                r = ev(x, var, v)
                if isinstance(e.op, ast.And) and not r:
                    return r
                if isinstance(e.op, ast.Or) and r:
                    return r
            return r
        if isinstance(e, ast.Compare) and len(e.ops) == 1:
            a, b = ev(e.left, var, v), ev(e.comparators[0], var, v)
            op = e.ops[0]
            if isinstance(op, ast.Is):
                return a is b
            if isinstance(op, ast.IsNot):
                return a is not b
            if isinstance(op, ast.Eq):
                return a == b
            if isinstance(op, ast.NotEq):
                return a != b
            if isinstance(op, ast.Gt):
                return a > b
            raise Unsupported(type(op).__name__)
        if isinstance(e, ast.Call) and isinstance(e.func, ast.Name) and e.func.id == "isinstance" and len(e.args) == 2:
            return isinstance(ev(e.args[0], var, v), ev(e.args[1], var, v))
        if isinstance(e, ast.Call) and isinstance(e.func, ast.Name) and e.func.id == "len" and len(e.args) == 1:
            return len(ev(e.args[0], var, v))
        if isinstance(e, ast.Call) and isinstance(e.func, ast.Name) and e.func.id == "bool" and len(e.args) == 1:
            return bool(ev(e.args[0], var, v))
        raise Unsupported(ast.unparse(e)[:40])

    for n in ast.walk(m.tree):
        if not (isinstance(n, ast.Call) and call_name(n) == "_fields_and_values"):
            continue
        lam = next((a for a in list(n.args[1:]) + [k.value for k in n.keywords] if isinstance(a, ast.Lambda)), None)
        if lam is None:
            continue
        res.instances += 1
        var = lam.args.args[0].arg
        f = m.enclosing_func(n)
        try:
            kept = [bool(ev(lam.body, var, v)) for v in samples]
        except Unsupported as u:
            raise AnalysisError(f"{rel}:{n.lineno}: serialiser filter uses an unsupported construct: {u}")
        except TypeError as u:
            raise AnalysisError(f"{rel}:{n.lineno}: serialiser filter cannot be evaluated on the samples: {u}")
        for v, k in zip(samples, kept):
            must_keep = v is not None and v != []
            if must_keep and not k:
                res.add(f"{rel}|{f.qualname if f else ''}|drops|{v!r}", f"the serialiser filter `{ast.unparse(lam)[:90]}` drops the set value {v!r}: "
                        "the deserialiser cannot tell it from an unset field, so the re-read IR differs (a constant-false "
                        "`BooleanType.value`, a zero integer, an empty string) and a back end run in a second process renders other code "
                        "than the one-process compiler", rel, n.lineno, f.qualname if f else "")
                break
            if v is None and k:
                res.add(f"{rel}|{f.qualname if f else ''}|keeps-none", f"the serialiser filter `{ast.unparse(lam)[:90]}` keeps None", rel, n.lineno,
                        f.qualname if f else "")
                break
        else:
            if len(res.samples) < 3:
                res.samples.append(f"{rel}:{n.lineno}: `{ast.unparse(lam)[:70]}` keeps every set value")
    if res.instances < 2:
        raise AnalysisError(f"{rel}: {res.instances} filters handed to _fields_and_values found (expected the serialiser's and fields_and_values')")
    res.analysed = [rel]
    return res


def enumconv(repo):
    """R-ENUMCONV (C18): the back end must not be able to tell an IR read back from JSON from the one built in memory.
    Enum-typed fields (`FunctionMapping`, `AddressableUnit`) are written as names or numbers; the deserialiser's converter
    turns either into a *member of the enum class* on every path (`getattr(enum_cls, ...)`, `enum_cls(...)`,
    `enum_cls[...]`).  The IR enums are int-based, so a raw number compares equal and survives `==` round-trip tests, but
    any identity test, dictionary keyed by members with a different hash, or `.name` access behaves differently in the
    two-program build.  Second clause: the compiler compares IR enum values with `==`/`in`, never with `is`."""
    res = RuleResult("R-ENUMCONV")
    m = repo.mod("compiler/util/ir_data_utils.py")
    conv = [f for f in m.funcs.values() if f.name == "_enum_type_converter"]
    if not conv:
        raise AnalysisError("ir_data_utils: _enum_type_converter not found")
    f = conv[0]
    params = [a.arg for a in f.node.args.args]
    cls_p = next((p for p in params if "cls" in p), None)
    if cls_p is None:
        raise AnalysisError("_enum_type_converter: enum class parameter not recognised")
    rets = [n for n in walk_no_nested_funcs(f.node) if isinstance(n, ast.Return)]
    if not rets:
        raise AnalysisError("_enum_type_converter has no return")
    for r in rets:
        res.instances += 1
        v = r.value
        ok = (isinstance(v, ast.Call) and ((isinstance(v.func, ast.Name) and v.func.id == cls_p) or
                                           (call_name(v) == "getattr" and v.args and isinstance(v.args[0], ast.Name) and v.args[0].id == cls_p))) \
            or (isinstance(v, ast.Subscript) and isinstance(v.value, ast.Name) and v.value.id == cls_p)
        if not ok:
            res.add(f"{m.rel}|{f.qualname}|raw-return", f"{f.qualname} returns `{ast.unparse(v) if v is not None else 'None'}` instead of a member of "
                    f"`{cls_p}`: enum fields of an IR read from JSON hold plain ints, so the back end of the two-program build sees other "
                    "objects than embossc (identity tests, member-keyed tables, `.name`)", m.rel, r.lineno, f.qualname)
    # identity comparisons with enum members
    enums = ("FunctionMapping", "AddressableUnit")
    for mod in repo.compile_path_modules():
        for fn in mod.funcs.values():
            for n in walk_no_nested_funcs(fn.node):
                if isinstance(n, ast.Compare) and any(isinstance(o, (ast.Is, ast.IsNot)) for o in n.ops):
                    for side in [n.left] + n.comparators:
                        s_ = ast.unparse(side)
                        if any(f"ir_data.{e}." in s_ or s_.startswith(e + ".") for e in enums):
                            res.instances += 1
                            res.add(f"{mod.rel}|{fn.qualname}|identity|{s_}", f"{fn.qualname} compares an IR enum value by identity (`{ast.unparse(n)[:70]}`): "
                                    "after a JSON round trip the value need not be the same object as the member, so the branch is taken "
                                    "by embossc and skipped by emboss_codegen_cpp", mod.rel, n.lineno, fn.qualname)
    res.analysed = [m.rel]
    return res
