"""R-KLEENE (C01): the three-valued operations of the expression runtime have the documented truth tables.

`And`, `Or` and `Choice` in emboss_arithmetic.h are one-expression functions over `Maybe<T>` operands.  A
`Maybe<bool>` has three abstract values (unknown, false, true); the functions only ask `Known()`, `ValueOr(c)`,
`ValueOrDefault()` and build `Maybe<R>()` / `Maybe<R>(c)`.  The rule evaluates each function body over the whole
finite domain with a small interpreter of that calculus — whose axioms (what the `Maybe` methods and
constructors do) are themselves read from emboss_maybe.h — and compares the result with Kleene's strong
conjunction / disjunction and with strict-in-the-condition choice.  `MaybeDo` must be unknown exactly when an
operand is unknown.  This is exhaustive over the domain; no numeric value is involved."""
from __future__ import annotations

import itertools
import re

from ..cppast import CppFacts, tokens
from ..report import AnalysisError, RuleResult

ARITH = "runtime/cpp/emboss_arithmetic.h"
MAYBE = "runtime/cpp/emboss_maybe.h"


class Bad(Exception):
    pass


class P:
    def __init__(self, toks):
        t = [x for x in toks if x != "/**/"]
        self.t = []
        i = 0
        while i < len(t):
            if t[i:i + 3] == [".", ".", "."]:
                self.t.append("...")
                i += 3
            else:
                self.t.append(t[i])
                i += 1
        self.i = 0

    def peek(self, k=0):
        return self.t[self.i + k] if self.i + k < len(self.t) else None

    def take(self, want=None):
        x = self.peek()
        if x is None or (want is not None and x != want):
            raise Bad(f"expected {want!r} got {x!r} near {' '.join(self.t[max(0, self.i - 5):self.i + 5])}")
        self.i += 1
        return x

    def skip_targs(self):
        if self.peek() != "<":
            return
        depth = 0
        while True:
            x = self.take()
            if x == "<":
                depth += 1
            elif x == ">":
                depth -= 1
                if depth == 0:
                    return
            elif x == ">>":
                depth -= 2
                if depth <= 0:
                    return

    def comma(self):
        e = self.ternary()
        while self.peek() == ",":
            self.take()
            e = ("comma", e, self.ternary())
        return e

    def ternary(self):
        c = self.lor()
        if self.peek() == "?":
            self.take()
            a = self.ternary()
            self.take(":")
            b = self.ternary()
            return ("?:", c, a, b)
        return c

    def lor(self):
        e = self.land()
        while self.peek() == "||":
            self.take()
            e = ("||", e, self.land())
        return e

    def land(self):
        e = self.unary()
        while self.peek() == "&&":
            self.take()
            e = ("&&", e, self.unary())
        return e

    def unary(self):
        if self.peek() == "!":
            self.take()
            return ("!", self.unary())
        return self.postfix()

    def args(self):
        self.take("(")
        out = []
        if self.peek() != ")":
            out.append(self.ternary())
            if self.peek() == "...":
                self.take()
            while self.peek() == ",":
                self.take()
                out.append(self.ternary())
                if self.peek() == "...":
                    self.take()
        self.take(")")
        return out

    def postfix(self):
        x = self.peek()
        if x == "(":
            self.take()
            e = self.comma()
            self.take(")")
        elif x in ("true", "false"):
            self.take()
            e = ("const", x == "true")
        elif x == "static_cast":
            self.take()
            self.skip_targs()
            e = self.args()[0]
        else:
            # qualified name with optional template arguments
            parts = []
            if x == "::":
                self.take()
            while True:
                n = self.take()
                if not re.fullmatch(r"[A-Za-z_]\w*", n):
                    raise Bad(f"unexpected token {n!r}")
                if n == "template":
                    continue
                parts.append(n)
                if self.peek() == "<" and n in ("Maybe", "MaybeStaticCast", "AssertBooleanOperationTypes", "Do", "MaybeDo"):
                    self.skip_targs()
                if self.peek() == "::":
                    self.take()
                    continue
                break
            name = "::".join(p for p in parts if p not in ("std", "emboss", "support"))
            if self.peek() == "(":
                e = ("call", name, self.args())
            else:
                e = ("name", name)
        while self.peek() == ".":
            self.take()
            meth = self.take()
            e = ("method", e, meth, self.args())
        return e


def _parse(text):
    p = P(tokens(text))
    e = p.comma()
    if p.peek() is not None:
        raise Bad(f"trailing tokens {' '.join(p.t[p.i:p.i + 6])}")
    return e


def _ret(body):
    body = re.sub(r"//[^\n]*", "", body)
    body = re.sub(r"static_assert\s*\((?:[^()]|\((?:[^()]|\([^()]*\))*\))*\)\s*;", "", body, flags=re.S)
    m = re.fullmatch(r"\s*\{\s*return\s+(.*);\s*\}\s*", body, re.S)
    if not m:
        raise Bad("body is not a single return statement")
    return m.group(1)


class MaybeVal:
    __slots__ = ("known", "value")

    def __init__(self, known, value):
        self.known, self.value = known, value

    def __eq__(self, o):
        return isinstance(o, MaybeVal) and self.known == o.known and (not self.known or self.value == o.value)

    def __repr__(self):
        return f"known({self.value})" if self.known else "unknown"


class Calculus:
    def __init__(self, axioms, functions):
        self.ax = axioms          # method name -> (params, expr) over known_/value_
        self.ctor = axioms["__ctor__"]  # {0: (value expr|None, known bool), 1: (..)}
        self.fn = functions

    def ev(self, e, env, depth=0):
        if depth > 50:
            raise Bad("recursion too deep")
        k = e[0]
        if k == "const":
            return e[1]
        if k == "name":
            if e[1] in env:
                return env[e[1]]
            raise Bad(f"unbound name {e[1]}")
        if k == "comma":
            self.ev(e[1], env, depth + 1)
            return self.ev(e[2], env, depth + 1)
        if k == "!":
            return not self._bool(self.ev(e[1], env, depth + 1))
        if k == "||":
            return self._bool(self.ev(e[1], env, depth + 1)) or self._bool(self.ev(e[2], env, depth + 1))
        if k == "&&":
            return self._bool(self.ev(e[1], env, depth + 1)) and self._bool(self.ev(e[2], env, depth + 1))
        if k == "?:":
            return self.ev(e[2] if self._bool(self.ev(e[1], env, depth + 1)) else e[3], env, depth + 1)
        if k == "method":
            obj = self.ev(e[1], env, depth + 1)
            if not isinstance(obj, MaybeVal):
                raise Bad(f"method {e[2]} on a non-Maybe value")
            if e[2] not in self.ax:
                raise Bad(f"Maybe has no method {e[2]}")
            params, body = self.ax[e[2]]
            args = [self.ev(a, env, depth + 1) for a in e[3]]
            sub = {"known_": obj.known, "value_": obj.value if obj.known else "default"}
            sub.update(dict(zip(params, args)))
            return self.ev(body, sub, depth + 1)
        if k == "call":
            name, args = e[1], e[2]
            if name == "Maybe":
                if not args:
                    val, known = self.ctor[0]
                    return MaybeVal(known, "default")
                val, known = self.ctor[1]
                return MaybeVal(known, self.ev(args[0], env, depth + 1))
            if name.startswith("Assert"):
                return True
            if name == "move":
                return self.ev(args[0], env, depth + 1)
            if name in self.fn:
                params, body = self.fn[name]
                vals = [self.ev(a, env, depth + 1) for a in args]
                return self.ev(body, dict(zip(params, vals)), depth + 1)
            raise Bad(f"call of unknown function {name}")
        raise Bad(f"unsupported node {k}")

    @staticmethod
    def _bool(v):
        if v == "default":
            return False  # value-initialised bool
        if isinstance(v, bool):
            return v
        raise Bad(f"non-boolean {v!r} used as a condition")


def _axioms(facts):
    out = {}
    for m in facts.by_class("Maybe"):
        if m.name in ("Known", "ValueOr", "ValueOrDefault") and m.kind != "CXXConstructorDecl":
            out[m.name] = ([p[1] for p in m.params], _parse(_ret(m.body)))
    if set(out) != {"Known", "ValueOr", "ValueOrDefault"}:
        raise AnalysisError(f"Maybe: accessor methods found: {sorted(out)}")
    src = facts.repo.read(MAYBE)
    c0 = re.search(r"constexpr\s+Maybe\s*\(\s*\)\s*:\s*value_\s*\(\s*\)\s*,\s*known_\s*\(\s*(true|false)\s*\)", src)
    c1 = re.search(r"constexpr\s+explicit\s+Maybe\s*\(\s*T\s+value\s*\)\s*:\s*value_\s*\(\s*(?:::std::move\s*\(\s*value\s*\)|value)\s*\)\s*,\s*known_\s*\(\s*(true|false)\s*\)", src)
    if not c0 or not c1:
        raise AnalysisError("Maybe: constructors not recognised (value_(), known_(false) / value_(value), known_(true))")
    out["__ctor__"] = {0: (None, c0.group(1) == "true"), 1: ("value", c1.group(1) == "true")}
    return out


def kleene(facts: CppFacts):
    res = RuleResult("R-KLEENE")
    ax = _axioms(facts)
    # axioms first: the constructors and accessors are what the calculus assumes
    res.instances += 2
    if ax["__ctor__"][0][1] is not False:
        res.add(f"{MAYBE}|Maybe::Maybe()|known", "a default-constructed Maybe is Known(): an unreadable field yields a value instead of 'unknown'", MAYBE, 0, "Maybe")
    if ax["__ctor__"][1][1] is not True:
        res.add(f"{MAYBE}|Maybe::Maybe(T)|known", "a Maybe constructed from a value is not Known()", MAYBE, 0, "Maybe")
    fns = {}
    wanted = {}
    for f in facts.functions:
        if f.name in ("And", "Or", "Choice", "MaybeStaticCast") and f.file == ARITH:
            try:
                fns[f.name] = ([p[1] for p in f.params], _parse(_ret(f.body)))
            except Bad as b:
                raise AnalysisError(f"{f.name}: {b}")
            wanted[f.name] = f
    for need in ("And", "Or", "Choice"):
        if need not in fns:
            raise AnalysisError(f"{ARITH}: {need} not found")
    calc = Calculus(ax, fns)
    U, F, T = MaybeVal(False, None), MaybeVal(True, False), MaybeVal(True, True)
    name = {id(U): "unknown", id(F): "false", id(T): "true"}

    # accessors
    for v, (kn, vo_t, vo_f, vd) in ((U, (False, True, False, "default")), (F, (True, False, False, False)), (T, (True, True, True, True))):
        res.instances += 1
        try:
            got = (calc.ev(("method", ("name", "x"), "Known", []), {"x": v}),
                   calc.ev(("method", ("name", "x"), "ValueOr", [("const", True)]), {"x": v}),
                   calc.ev(("method", ("name", "x"), "ValueOr", [("const", False)]), {"x": v}),
                   calc.ev(("method", ("name", "x"), "ValueOrDefault", []), {"x": v}))
        except Bad as b:
            raise AnalysisError(f"Maybe accessors: {b}")
        if got != (kn, vo_t, vo_f, vd):
            res.add(f"{MAYBE}|Maybe|accessors|{name[id(v)]}", f"for a Maybe that is {name[id(v)]}: Known/ValueOr(true)/ValueOr(false)/"
                    f"ValueOrDefault give {got}, expected {(kn, vo_t, vo_f, vd)}", MAYBE, 0, "Maybe")

    def kleene_and(a, b):
        if a == F or b == F:
            return F
        if a == U or b == U:
            return U
        return T

    def kleene_or(a, b):
        if a == T or b == T:
            return T
        if a == U or b == U:
            return U
        return F

    for fname, ref in (("And", kleene_and), ("Or", kleene_or)):
        params, body = fns[fname]
        f = wanted[fname]
        for a, b in itertools.product((U, F, T), repeat=2):
            res.instances += 1
            try:
                got = calc.ev(body, {params[0]: a, params[1]: b})
            except Bad as x:
                raise AnalysisError(f"{fname}: {x}")
            want = ref(a, b)
            if got != want:
                res.add(f"{ARITH}|{fname}|{name[id(a)]}|{name[id(b)]}", f"{fname}({name[id(a)]}, {name[id(b)]}) is {got}; the documented "
                        f"three-valued result is {want}: a structure reports a definite presence/size/value from a prefix of the "
                        "message that changes when more bytes arrive (or stays unknown when it is determined)", ARITH, f.line, fname)
    params, body = fns["Choice"]
    f = wanted["Choice"]
    A, B = MaybeVal(True, "a"), MaybeVal(True, "b")
    for c in (U, F, T):
        for t in (U, A):
            for e in (U, B):
                res.instances += 1
                try:
                    got = calc.ev(body, {params[0]: c, params[1]: t, params[2]: e})
                except Bad as x:
                    raise AnalysisError(f"Choice: {x}")
                want = U if c == U else (t if c == T else e)
                if got != want:
                    res.add(f"{ARITH}|Choice|{name[id(c)]}|{t}|{e}", f"Choice({name[id(c)]}, {t}, {e}) is {got}; expected {want}", ARITH, f.line, "Choice")
    # MaybeDo: unknown exactly when an operand is unknown
    md = [x for x in facts.functions if x.name == "MaybeDo" and x.file == ARITH]
    res.instances += 1
    if not md:
        raise AnalysisError("MaybeDo not found")
    try:
        e = _parse(_ret(md[0].body))
    except Bad as b:
        raise AnalysisError(f"MaybeDo: {b}")
    ok = e[0] == "?:" and e[1] == ("call", "AllKnown", [("name", "args")]) and e[3] == ("call", "Maybe", []) \
        and e[2][0] == "call" and e[2][1] == "Maybe" and len(e[2][2]) == 1
    if not ok:
        res.add(f"{ARITH}|MaybeDo|strict", "MaybeDo is no longer `AllKnown(args...) ? Maybe<R>(Do(values...)) : Maybe<R>()`: an arithmetic "
                "result is not unknown exactly when an operand is unknown", ARITH, md[0].line, "MaybeDo")
    res.samples = ["And/Or: 9 operand combinations each = Kleene tables", "Choice: 12 combinations", "MaybeDo strict"]
    res.analysed = [ARITH, MAYBE]
    return res


def eqtable(facts: CppFacts, templates):
    """R-EQTABLE (C20): the per-field clause of the generated Equals()/UncheckedEquals() is a sequence of
    `if (<condition>) return false;` over `has_x` of both views (Maybe<bool>) and the field views' own Equals.  It is
    evaluated with the Maybe calculus over the whole domain — has_x of either side unknown/false/true, fields
    equal or not — and must say "not equal" exactly when a presence is unknown (checked form only), the presences
    differ, or both are present and the field views differ; and it must be symmetric in the two views."""
    res = RuleResult("R-EQTABLE")
    ax = _axioms(facts)
    calc = Calculus(ax, {})
    U, F, T = MaybeVal(False, None), MaybeVal(True, False), MaybeVal(True, True)
    nm = {id(U): "unknown", id(F): "absent", id(T): "present"}
    for tname, eqcall, domain in (("equals_method_test", "Equals", (U, F, T)), ("unchecked_equals_method_test", "UncheckedEquals", (F, T))):
        if tname not in templates:
            raise AnalysisError(f"template {tname} vanished")
        text = re.sub(r"//[^\n]*", "", templates[tname]["text"])
        text = text.replace("emboss_reserved_local_other.has_${field}", "OTHER").replace("has_${field}", "MINE")
        text = re.sub(r"\$\{field\}\s*\.\s*" + eqcall + r"\s*\(\s*emboss_reserved_local_other\s*\.\s*\$\{field\}\s*\)", "EQ", text)
        if "${field}" in text:
            raise AnalysisError(f"{tname}: unexpected use of ${{field}} left after normalisation")
        conds = re.findall(r"if\s*\(((?:[^()]|\((?:[^()]|\([^()]*\))*\))*)\)\s*return\s+false\s*;", text)
        rest = re.sub(r"if\s*\(((?:[^()]|\((?:[^()]|\([^()]*\))*\))*)\)\s*return\s+false\s*;", "", text).strip()
        if not conds or rest:
            raise AnalysisError(f"{tname}: not a sequence of `if (...) return false;` ({rest[:40]!r})")
        try:
            parsed = [_parse(c) for c in conds]
        except Bad as b:
            raise AnalysisError(f"{tname}: {b}")
        table = {}
        for mine in domain:
            for other in domain:
                for eq in (False, True):
                    res.instances += 1
                    try:
                        not_equal = any(calc._bool(calc.ev(c, {"MINE": mine, "OTHER": other, "EQ": eq})) for c in parsed)
                    except Bad as b:
                        raise AnalysisError(f"{tname}: {b}")
                    table[(nm[id(mine)], nm[id(other)], eq)] = not_equal
                    want = (mine == U or other == U) or (mine != other) or (mine == T and not eq)
                    if not_equal != want:
                        res.add(f"{tname}|{nm[id(mine)]}|{nm[id(other)]}|{'eq' if eq else 'ne'}", f"{tname}: with this view's field "
                                f"{nm[id(mine)]}, the other's {nm[id(other)]}, and the field views {'equal' if eq else 'different'}, the "
                                f"structures compare {'unequal' if not_equal else 'equal'}; logical equality says the opposite",
                                "compiler/back_end/cpp/generated_code_templates", templates[tname]["line"], tname)
        for (a, b, eq), v in table.items():
            if table[(b, a, eq)] != v:
                res.add(f"{tname}|asymmetric|{a}|{b}", f"{tname}: a.Equals(b) and b.Equals(a) differ for presences ({a}, {b})",
                        "compiler/back_end/cpp/generated_code_templates", templates[tname]["line"], tname)
                break
    res.samples = ["equals_method_test: 18 cases; unchecked_equals_method_test: 8 cases"]
    res.analysed = ["compiler/back_end/cpp/generated_code_templates", MAYBE]
    return res


def oktable(facts: CppFacts, templates):
    """R-OKTABLE (C01): the per-field clause of the generated Ok() (`ok_method_test`) over has_x in {unknown, absent,
    present} and x.Ok() in {false, true}: the structure is not Ok exactly when the presence is unknown or the field is
    present and not Ok; an absent field's Ok() is irrelevant.  The switch form must reject an unknown discriminant."""
    res = RuleResult("R-OKTABLE")
    ax = _axioms(facts)
    calc = Calculus(ax, {})
    U, F, T = MaybeVal(False, None), MaybeVal(True, False), MaybeVal(True, True)
    nm = {id(U): "unknown", id(F): "absent", id(T): "present"}
    TPL = "compiler/back_end/cpp/generated_code_templates"
    tname = "ok_method_test"
    if tname not in templates:
        raise AnalysisError(f"template {tname} vanished")
    text = re.sub(r"//[^\n]*", "", templates[tname]["text"])
    text = text.replace("has_${field}()", "HAS").replace("${field}().Ok()", "FIELD_OK")
    if "${field}" in text:
        raise AnalysisError(f"{tname}: unexpected use of ${{field}}")
    conds = re.findall(r"if\s*\(((?:[^()]|\((?:[^()]|\([^()]*\))*\))*)\)\s*return\s+false\s*;", text)
    rest = re.sub(r"if\s*\(((?:[^()]|\((?:[^()]|\([^()]*\))*\))*)\)\s*return\s+false\s*;", "", text).strip()
    if not conds or rest:
        raise AnalysisError(f"{tname}: not a sequence of `if (...) return false;`")
    try:
        parsed = [_parse(c) for c in conds]
    except Bad as b:
        raise AnalysisError(f"{tname}: {b}")
    for has in (U, F, T):
        for ok in (False, True):
            res.instances += 1
            try:
                bad = any(calc._bool(calc.ev(c, {"HAS": has, "FIELD_OK": ok})) for c in parsed)
            except Bad as b:
                raise AnalysisError(f"{tname}: {b}")
            want = has == U or (has == T and not ok)
            if bad != want:
                res.add(f"{tname}|{nm[id(has)]}|{'ok' if ok else 'not-ok'}", f"{tname}: with the field {nm[id(has)]} and its view "
                        f"{'Ok' if ok else 'not Ok'}, the structure is reported {'not Ok' if bad else 'Ok'}; expected the opposite",
                        TPL, templates[tname]["line"], tname)
    # switch form
    res.instances += 2
    if "ok_method_switch_block" not in templates or "ok_method_switch_case" not in templates:
        raise AnalysisError("ok_method_switch_* templates vanished")
    blk = re.sub(r"//[^\n]*", "", templates["ok_method_switch_block"]["text"])
    case = re.sub(r"//[^\n]*", "", templates["ok_method_switch_case"]["text"])
    m1 = re.search(r"if\s*\(\s*!\s*(\w+)\s*\.\s*Known\s*\(\s*\)\s*\)\s*return\s+false\s*;\s*switch\s*\(\s*\1\s*\.\s*ValueOrDefault\s*\(\s*\)\s*\)", blk)
    if not m1:
        res.add("ok_method_switch_block|unknown", "the switch form of Ok() does not return false for an unknown discriminant before "
                "switching on its value (an unreadable tag would select `case 0`)", TPL, templates["ok_method_switch_block"]["line"], "ok_method_switch_block")
    if not re.search(r"case\s+\$\{case_value\}\s*:\s*if\s*\(\s*!\s*\$\{field\}\(\)\s*\.\s*Ok\s*\(\s*\)\s*\)\s*return\s+false\s*;\s*break\s*;", case):
        res.add("ok_method_switch_case|shape", "a switch case is not `case V: if (!field().Ok()) return false; break;` (a missing break "
                "falls through into the next field's test)", TPL, templates["ok_method_switch_case"]["line"], "ok_method_switch_case")
    res.samples = ["ok_method_test: 6 cases; switch form rejects an unknown discriminant, cases end in break"]
    res.analysed = [TPL, MAYBE]
    return res
