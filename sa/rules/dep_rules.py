"""C15 rules on dependency_checker.py.

R-TOPOGUARD  the ordering pass places a field only under a test that all of its dependencies are already
             placed, marks it placed in the same block, takes every field as a candidate, asserts completeness
             and stores the order unpermuted.
R-TARJAN     the cycle finder has the clauses of Tarjan's SCC algorithm that are each necessary for finding every
             cycle: index/lowlink from one counter, stack + on-stack set kept in step, lowlink lowered through tree
             edges (callee's lowlink) and through edges to on-stack nodes (index or lowlink of the target), root
             test lowlink == index, pop-until-root, components of size > 1 or with a self edge are reported, every
             node of the graph is a start node."""
from __future__ import annotations

import ast
import re

from ..pyfacts import call_name, walk_no_nested_funcs
from ..report import AnalysisError, RuleResult

DC = "compiler/front_end/dependency_checker.py"


def _names(node):
    return {n.id for n in ast.walk(node) if isinstance(n, ast.Name)}


def _ancestors(m, node, stop):
    out = []
    cur = m.parent(node)
    while cur is not None and cur is not stop:
        out.append(cur)
        cur = m.parent(cur)
    return out


def topoguard(repo):
    res = RuleResult("R-TOPOGUARD")
    m = repo.mod(DC)
    f = None
    for g in m.top_funcs():
        for n in walk_no_nested_funcs(g.node):
            if isinstance(n, ast.Call) and isinstance(n.func, ast.Attribute) and n.func.attr == "extend" \
                    and ast.unparse(n.func.value).endswith("fields_in_dependency_order"):
                f, store = g, n
    if f is None:
        raise AnalysisError("dependency_checker: the function that fills fields_in_dependency_order was not found")
    order = store.args[0].id if store.args and isinstance(store.args[0], ast.Name) else None
    res.instances += 1
    if order is None:
        res.add(f"{DC}|{f.name}|store", "fields_in_dependency_order is not filled from the order list as built "
                f"(`{ast.unparse(store.args[0]) if store.args else ''}`)", DC, store.lineno, f.name)
        return res
    params = [a.arg for a in f.node.args.args]
    apps = [n for n in walk_no_nested_funcs(f.node) if isinstance(n, ast.Call) and isinstance(n.func, ast.Attribute)
            and n.func.attr in ("append", "insert", "extend") and isinstance(n.func.value, ast.Name) and n.func.value.id == order]
    if not apps:
        raise AnalysisError(f"{f.name}: nothing is appended to {order}")
    for a in apps:
        res.instances += 1
        if a.func.attr != "append":
            res.add(f"{DC}|{f.name}|place|{a.func.attr}", f"{order}.{a.func.attr}: fields are not placed one at a time at the end",
                    DC, a.lineno, f.name)
            continue
        # enclosing if with all(dep in added for dep in deps[...])
        guard = None
        blk = None
        cur = a
        while cur is not f.node:
            par = m.parent(cur)
            if isinstance(par, ast.If) and any(cur is x or any(cur is y for y in ast.walk(x)) for x in par.body):
                t = par.test
                if isinstance(t, ast.Call) and call_name(t) == "all" and t.args and isinstance(t.args[0], ast.GeneratorExp):
                    ge = t.args[0]
                    e = ge.elt
                    if isinstance(e, ast.Compare) and len(e.ops) == 1 and isinstance(e.ops[0], ast.In) \
                            and isinstance(e.left, ast.Name) and e.left.id == ge.generators[0].target.id \
                            and isinstance(e.comparators[0], ast.Name) and not ge.generators[0].ifs:
                        guard = (par, e.comparators[0].id, ge.generators[0].iter)
                        blk = par.body
                        break
            cur = par
        if guard is None:
            res.add(f"{DC}|{f.name}|unguarded", f"a field is appended to {order} outside a test that every one of its dependencies "
                    "is already placed (`all(dep in placed for dep in dependencies[field])`): fields can be emitted before "
                    "the fields that locate them", DC, a.lineno, f.name)
            continue
        _, placed, deps_iter = guard
        # the dependency set iterated is the one of the field being placed
        res.instances += 1
        if not (isinstance(deps_iter, ast.Subscript) and _names(deps_iter) & set(params)):
            res.add(f"{DC}|{f.name}|deps", f"the guard iterates `{ast.unparse(deps_iter)}`, not the dependency table entry of the field",
                    DC, a.lineno, f.name)
        # the same block marks the field placed
        res.instances += 1
        marks = [n for st in blk for n in ast.walk(st) if isinstance(n, ast.Call) and isinstance(n.func, ast.Attribute)
                 and n.func.attr == "add" and isinstance(n.func.value, ast.Name) and n.func.value.id == placed]
        if not marks:
            res.add(f"{DC}|{f.name}|mark", f"a placed field is not added to `{placed}`: fields depending on it are never placed "
                    "(assertion failure) ", DC, a.lineno, f.name)
        elif isinstance(deps_iter, ast.Subscript) and ast.unparse(marks[0].args[0]) != ast.unparse(deps_iter.slice):
            res.add(f"{DC}|{f.name}|mark-key", f"`{placed}` receives `{ast.unparse(marks[0].args[0])}` but dependencies are looked up "
                    f"by `{ast.unparse(deps_iter.slice)}`", DC, a.lineno, f.name)
    # nothing but the runtime parameters is placed without going through the guard
    placed_names = set()
    for a in apps:
        cur = a
        while cur is not f.node:
            par = m.parent(cur)
            if isinstance(par, ast.If) and isinstance(par.test, ast.Call) and call_name(par.test) == "all" and par.test.args \
                    and isinstance(par.test.args[0], ast.GeneratorExp):
                e = par.test.args[0].elt
                if isinstance(e, ast.Compare) and isinstance(e.comparators[0], ast.Name):
                    placed_names.add((e.comparators[0].id, par))
            cur = par
    for placed, guard_if in placed_names:
        for n in walk_no_nested_funcs(f.node):
            grows = (isinstance(n, ast.Call) and isinstance(n.func, ast.Attribute) and n.func.attr in ("add", "update")
                     and isinstance(n.func.value, ast.Name) and n.func.value.id == placed) or \
                    (isinstance(n, ast.AugAssign) and isinstance(n.target, ast.Name) and n.target.id == placed)
            if not grows:
                continue
            res.instances += 1
            if any(n is x for x in ast.walk(guard_if)):
                continue
            loops_ = [p_ for p_ in _ancestors(m, n, f.node) if isinstance(p_, ast.For)]
            if any(ast.unparse(l.iter).endswith("runtime_parameter") for l in loops_):
                continue
            res.add(f"{DC}|{f.name}|pre-placed", f"`{ast.unparse(n)[:90]}` marks something as placed outside the dependency test "
                    "(only runtime parameters may be pre-placed): fields that depend on it, directly or through a virtual field, are "
                    "emitted before the fields they are computed from", DC, n.lineno, f.name)
    # completeness assertion and candidate list
    res.instances += 2
    asserts = [n for n in walk_no_nested_funcs(f.node) if isinstance(n, ast.Assert) and order in _names(n.test) and "len" in ast.unparse(n.test)]
    if not asserts:
        res.add(f"{DC}|{f.name}|complete", f"no assertion that every field was placed (len({order}) == len(structure.field))", DC, f.line, f.name)
    cands = [n for n in walk_no_nested_funcs(f.node) if isinstance(n, ast.Assign) and isinstance(n.value, ast.Call)
             and ast.unparse(n.value).replace(" ", "").startswith("list(range(len(") and ".field" in ast.unparse(n.value)]
    if not cands:
        res.add(f"{DC}|{f.name}|candidates", "the candidate list is no longer every field index of the structure", DC, f.line, f.name)
    for n in walk_no_nested_funcs(f.node):
        if isinstance(n, ast.Call) and isinstance(n.func, ast.Attribute) and n.func.attr in ("sort", "reverse") \
                and isinstance(n.func.value, ast.Name) and n.func.value.id == order:
            res.add(f"{DC}|{f.name}|reorder", f"{order} is reordered after being built", DC, n.lineno, f.name)
    res.samples = [f"{f.name}: {order}.append under all(dep in placed ...), placed.add in the same block, completeness asserted"]
    res.analysed = [DC]
    return res


def tarjan(repo, order_clause=True, order_only=False):
    res = RuleResult("R-TARJAN")
    m = repo.mod(DC)
    outer = inner = None
    for g in m.top_funcs():
        for n in g.node.body:
            if isinstance(n, ast.FunctionDef) and any(isinstance(c, ast.Call) and isinstance(c.func, ast.Name) and c.func.id == n.name
                                                      for c in ast.walk(n)):
                outer, inner = g, n
    if inner is None:
        raise AnalysisError("dependency_checker: the recursive strong-connect routine was not found")
    node = inner.args.args[0].arg
    graph = outer.node.args.args[0].arg
    src = lambda x: ast.unparse(x)

    def add(key, msg, line=None):
        res.add(f"{DC}|{outer.name}|{key}", msg, DC, line or inner.lineno, outer.name)

    # (1) index and lowlink tables: two dict stores keyed by `node` with the same value, followed by counter += 1
    stores = [n for n in inner.body if isinstance(n, ast.Assign) and isinstance(n.targets[0], ast.Subscript)
              and src(n.targets[0].slice) == node]
    res.instances += 1
    if len(stores) < 2 or src(stores[0].value) != src(stores[1].value):
        raise AnalysisError("strong_connect: index/lowlink initialisation not recognised")
    index_t, low_t = src(stores[0].targets[0].value), src(stores[1].targets[0].value)
    counter = src(stores[0].value)
    if not any(isinstance(n, ast.AugAssign) and src(n.target) == counter and isinstance(n.op, ast.Add) for n in inner.body):
        add("counter", "the index counter is not advanced: every node gets index 0 and every graph looks like one component")
    # (2) stack and on-stack set
    res.instances += 1
    pushes = [n for n in ast.walk(inner) if isinstance(n, ast.Call) and isinstance(n.func, ast.Attribute) and n.func.attr == "append"
              and n.args and src(n.args[0]) == node]
    adds = [n for n in ast.walk(inner) if isinstance(n, ast.Call) and isinstance(n.func, ast.Attribute) and n.func.attr == "add"
            and n.args and src(n.args[0]) == node]
    if not pushes or not adds:
        add("push", "a node is not pushed on the stack and recorded as on-stack when first visited")
        return res
    stack, onstack = src(pushes[0].func.value), src(adds[0].func.value)
    # (3) successor loop
    loops = [n for n in inner.body if isinstance(n, ast.For) and src(n.iter) in (f"{graph}[{node}]", f"sorted({graph}[{node}])")]
    res.instances += 2
    if not loops:
        add("successors", f"strong_connect does not iterate the successors {graph}[{node}]")
        return res
    lp = loops[0]
    # successors are a *set*: visiting them in set order makes the depth of the recursion (and so whether a long chain
    # overflows the interpreter's stack) depend on PYTHONHASHSEED
    if order_clause and not src(lp.iter).startswith("sorted("):
        add("successor-order", f"strong_connect visits `{src(lp.iter)}` in set order: the shape of the depth-first search depends on the "
            "hash seed, so a 1300-field chain compiles under some seeds and dies with RecursionError under others (C17)", lp.lineno)
    if order_only:
        res.findings = [f_ for f_ in res.findings if f_.key.endswith("successor-order")]
        res.analysed = [DC]
        return res
    dest = lp.target.id
    tree = back = None
    for st in lp.body:
        cur = st
        while isinstance(cur, ast.If):
            t = src(cur.test)
            if t == f"{dest} not in {index_t}":
                tree = cur
            elif t == f"{dest} in {onstack}":
                back = cur
            cur = cur.orelse[0] if len(cur.orelse) == 1 else None
    res.instances += 2

    def lowers(block, allowed):
        for n in block:
            for x in ast.walk(n):
                if isinstance(x, ast.Assign) and src(x.targets[0]) == f"{low_t}[{node}]" and isinstance(x.value, ast.Call) \
                        and call_name(x.value) == "min" and len(x.value.args) == 2:
                    args = {src(a) for a in x.value.args}
                    if f"{low_t}[{node}]" in args and (args - {f"{low_t}[{node}]"}) <= allowed and len(args) == 2:
                        return True
        return False

    if tree is None:
        add("tree-edge", f"no branch for successors not yet visited (`{dest} not in {index_t}`)")
    else:
        rec = [n for n in ast.walk(ast.Module(body=tree.body, type_ignores=[])) if isinstance(n, ast.Call)
               and isinstance(n.func, ast.Name) and n.func.id == inner.name and n.args and src(n.args[0]) == dest]
        if not rec:
            add("recurse", "unvisited successors are not explored recursively", tree.lineno)
        if not lowers(tree.body, {f"{low_t}[{dest}]"}):
            add("tree-lowlink", f"after exploring a successor the lowlink is not lowered to min(own, {low_t}[{dest}]): "
                "cycles that close below a child are missed", tree.lineno)
    if back is None:
        add("back-edge", f"no branch for successors that are on the stack (`{dest} in {onstack}`): cycles through an "
            "already visited node are missed")
    elif not lowers(back.body, {f"{index_t}[{dest}]", f"{low_t}[{dest}]"}):
        add("back-lowlink", f"an edge to an on-stack node does not lower the lowlink to min(own, {index_t}[{dest}])", back.lineno)
    # (4) root test and pop loop
    res.instances += 3
    roots = []
    for n in inner.body:
        if isinstance(n, ast.If) and isinstance(n.test, ast.Compare) and len(n.test.ops) == 1 and isinstance(n.test.ops[0], ast.Eq) \
                and {src(n.test.left), src(n.test.comparators[0])} == {f"{low_t}[{node}]", f"{index_t}[{node}]"}:
            roots.append(n)
    if not roots:
        add("root-test", f"no `{low_t}[{node}] == {index_t}[{node}]` test: components are never closed")
        return res
    root = roots[0]
    pops = [n for n in ast.walk(root) if isinstance(n, ast.Call) and isinstance(n.func, ast.Attribute) and n.func.attr == "pop"
            and src(n.func.value) == stack and not n.args]
    removes = [n for n in ast.walk(root) if isinstance(n, ast.Call) and isinstance(n.func, ast.Attribute)
               and n.func.attr in ("remove", "discard") and src(n.func.value) == onstack]
    whiles = [n for n in ast.walk(root) if isinstance(n, ast.While)]
    if not pops or not whiles:
        add("pop", "the component is not popped off the stack in a loop")
    else:
        w = whiles[0]
        stops = [n for n in ast.walk(w) if isinstance(n, ast.If) and any(isinstance(b, ast.Break) for b in n.body)
                 and isinstance(n.test, ast.Compare) and isinstance(n.test.ops[0], ast.Eq) and node in _names(n.test)]
        if not stops and not (isinstance(w.test, ast.Compare) and node in _names(w.test)):
            add("pop-until", f"popping does not stop at the root `{node}`")
    if not removes:
        add("onstack-remove", f"popped nodes stay in `{onstack}`: later edges to finished components are treated as back edges "
            "and unrelated nodes are merged into bogus cycles")
    # (5) nontrivial filter: size > 1 or self edge
    res.instances += 1
    filt = [n for n in ast.walk(root) if isinstance(n, ast.If) and isinstance(n.test, ast.BoolOp) and isinstance(n.test.op, ast.Or)]
    ok = False
    for n in filt:
        parts = [src(v) for v in n.test.values]
        size = any(p.replace(" ", "").startswith("len(") and p.replace(" ", "").endswith(">1") for p in parts)
        selfedge = any(isinstance(v, ast.Compare) and isinstance(v.ops[0], ast.In) and src(v.comparators[0]).startswith(f"{graph}[")
                       and src(v.left) == src(v.comparators[0])[len(graph) + 1:-1] for v in n.test.values)
        if size and selfedge:
            ok = True
    if not ok:
        add("nontrivial", "a component is not reported exactly when it has more than one node or a self edge: a field that "
            "depends on itself (or every single field) is misjudged", root.lineno)
    # (6) every node is a start node
    res.instances += 1
    starts = [n for n in outer.node.body if isinstance(n, ast.For) and src(n.iter) == graph]
    good = False
    for n in starts:
        for st in n.body:
            if isinstance(st, ast.If) and src(st.test) == f"{n.target.id} not in {index_t}" and \
                    any(isinstance(c, ast.Call) and isinstance(c.func, ast.Name) and c.func.id == inner.name for c in ast.walk(st)):
                good = True
    if not good:
        add("all-starts", "not every node of the graph is used as a start node: cycles in parts unreachable from the first node are missed",
            outer.line)
    res.samples = [f"{outer.name}/{inner.name}: index={index_t} lowlink={low_t} stack={stack} on-stack={onstack}"]
    res.analysed = [DC]
    return res


def aliasdeps(repo):
    """R-ALIASDEPS (C06/C15): the members of an anonymous `bits` are exposed as alias fields `let y = anon.y` whose
    existence is `$present(anon) && $present(anon.y)`.  Whether `anon.y` is present can depend on a sibling
    member `z` — which at the level of the enclosing structure is only reachable through *its* alias.  The ordering
    pass records a field reference as a dependency on its first component only, so `y` is ordered after `anon`
    but not after `z`; the text writer then emits `y` before `z` and the text cannot be read back.

    Decided: whether the recorder looks at anything but `path[0]` while such two-component aliases are synthesised.
    If it does, the rule makes no claim."""
    res = RuleResult("R-ALIASDEPS")
    m = repo.mod(DC)
    rec = None
    for f in m.top_funcs():
        ps = [a.arg for a in f.node.args.args]
        if len(ps) >= 2 and "dependencies" in ps:
            for n in walk_no_nested_funcs(f.node):
                if isinstance(n, ast.Subscript) and isinstance(n.value, ast.Attribute) and n.value.attr == "path":
                    rec = f
    if rec is None:
        raise AnalysisError("dependency_checker: the function recording field-reference dependencies was not found")
    subs = [n for n in walk_no_nested_funcs(rec.node) if isinstance(n, ast.Subscript) and isinstance(n.value, ast.Attribute)
            and n.value.attr == "path"]
    loops = [n for n in walk_no_nested_funcs(rec.node) if isinstance(n, (ast.For, ast.comprehension)) and "path" in ast.unparse(n.iter)]
    first_only = bool(subs) and not loops and all(isinstance(s.slice, ast.Constant) and s.slice.value == 0 for s in subs)
    syn = repo.mod("compiler/front_end/synthetics.py")
    two = False
    for f in syn.top_funcs():
        for n in walk_no_nested_funcs(f.node):
            if isinstance(n, ast.Call) and (call_name(n) or "").endswith("FieldReference"):
                for k in n.keywords:
                    if k.arg == "path" and isinstance(k.value, ast.List) and len(k.value.elts) == 2:
                        two = True
    # compensation: the function that fills fields_in_dependency_order may complete the graph itself -- it takes the
    # mapping it orders by from a helper that looks at the two-component aliases whose head is an anonymous field
    # (`is_anonymous`, `path[1]`), reads the member's own dependencies and adds edges between sibling aliases
    compensated = False
    byname = {f.name: f for f in m.top_funcs()}
    for f in m.top_funcs():
        if "fields_in_dependency_order" not in ast.unparse(f.node) or "structure" not in [a.arg for a in f.node.args.args]:
            continue
        used = {ast.unparse(n.value) for n in walk_no_nested_funcs(f.node) if isinstance(n, ast.Subscript) and isinstance(n.ctx, ast.Load)
                and isinstance(n.value, ast.Name) and n.value.id.startswith("dependenc")}
        for n in walk_no_nested_funcs(f.node):
            if isinstance(n, ast.Assign) and len(n.targets) == 1 and isinstance(n.targets[0], ast.Name) and n.targets[0].id in used \
                    and isinstance(n.value, ast.Call) and call_name(n.value) in byname:
                g = byname[call_name(n.value)]
                src = ast.unparse(g.node)
                # the recognition of the aliases may live in a helper the function iterates
                for x in walk_no_nested_funcs(g.node):
                    if isinstance(x, ast.Call) and call_name(x) in byname and call_name(x) != g.name:
                        src += "\n" + ast.unparse(byname[call_name(x)].node)
                adds = any(isinstance(x, ast.Assign) and isinstance(x.targets[0], ast.Subscript) and isinstance(x.value, ast.BinOp)
                           and isinstance(x.value.op, ast.BitOr) for x in walk_no_nested_funcs(g.node)) or \
                    any(isinstance(x, ast.AugAssign) and isinstance(x.target, ast.Subscript) and isinstance(x.op, ast.BitOr) for x in walk_no_nested_funcs(g.node))
                if "is_anonymous" in src and re.search(r"path\[1\]", src) and adds and re.search(r"dependencies(\.get\(|\[)\s*member", src):
                    compensated = True
    res.instances += 3
    if first_only and two and not compensated:
        res.add(f"{DC}|{rec.name}|first-component-only", f"{rec.name} records `reference.path[0]` only, while synthetics.py creates alias "
                "fields reading `anonymous_bits.member` (two components) whose presence depends on the member's own condition: "
                "an alias whose member is conditional on a sibling member is not ordered after that sibling's alias, so "
                "fields_in_dependency_order (Ok(), text output) lists it first", DC, rec.line, rec.name)
    res.samples = [f"{rec.name}: first component only = {first_only}; two-component aliases synthesised = {two}; ordering pass adds member dependencies = {compensated}"]
    res.analysed = [DC, "compiler/front_end/synthetics.py"]
    return res


def _eval_guard(test, binding):
    """Evaluates a boolean guard over attribute chains bound to constants (or raises ValueError)."""
    if isinstance(test, ast.BoolOp):
        vals = [_eval_guard(v, binding) for v in test.values]
        if isinstance(test.op, ast.Or):
            for v in vals:
                if v:
                    return v
            return vals[-1]
        for v in vals:
            if not v:
                return v
        return vals[-1]
    if isinstance(test, ast.UnaryOp) and isinstance(test.op, ast.Not):
        return not _eval_guard(test.operand, binding)
    if isinstance(test, ast.Compare) and len(test.ops) == 1:
        a, b = _eval_guard(test.left, binding), _eval_guard(test.comparators[0], binding)
        op = test.ops[0]
        if isinstance(op, ast.Eq):
            return a == b
        if isinstance(op, ast.NotEq):
            return a != b
        if isinstance(op, ast.In):
            return a in b
        if isinstance(op, ast.NotIn):
            return a not in b
        raise ValueError(ast.unparse(test))
    if isinstance(test, ast.Constant):
        return test.value
    if isinstance(test, (ast.Tuple, ast.List, ast.Set)):
        return [_eval_guard(e, binding) for e in test.elts]
    src = ast.unparse(test)
    if src in binding:
        return binding[src]
    raise ValueError(src)


def selfimport(repo):
    """R-SELFIMPORT (C15): the module import graph keeps an edge for every import except the prelude's automatic
    import of itself (both names empty).  The guard in front of the edge insertion is evaluated for the three
    relevant situations — an ordinary import, a module importing its own file, the prelude's self-import — with
    the two file names bound to constants; a self-import of a real module must produce an edge, or a module
    importing itself is not reported as a cycle."""
    res = RuleResult("R-SELFIMPORT")
    m = repo.mod(DC)
    target = None
    for f in m.top_funcs():
        for n in walk_no_nested_funcs(f.node):
            if isinstance(n, ast.For) and ast.unparse(n.iter).endswith(".foreign_import"):
                target = (f, n)
    if target is None:
        raise AnalysisError("dependency_checker: the loop over foreign_import was not found")
    f, loop = target
    imp = loop.target.id
    # the module variable of the enclosing loop
    outer = next((n for n in walk_no_nested_funcs(f.node) if isinstance(n, ast.For) and loop in ast.walk(n) and n is not loop), None)
    mod = outer.target.id if outer is not None and isinstance(outer.target, ast.Name) else "module"
    inserts = []

    def visit(stmts, guards):
        for st in stmts:
            if isinstance(st, ast.If):
                visit(st.body, guards + [(st.test, True)])
                visit(st.orelse, guards + [(st.test, False)])
            elif isinstance(st, (ast.AugAssign, ast.Expr, ast.Assign)) and imp in {x.id for x in ast.walk(st) if isinstance(x, ast.Name)}:
                inserts.append((st, guards))
    visit(loop.body, [])
    if not inserts:
        raise AnalysisError(f"{f.name}: no statement records the imported file")
    cases = {
        "ordinary import": {f"{imp}.file_name.text": "other.emb", f"{mod}.source_file_name": "m.emb"},
        "module importing itself": {f"{imp}.file_name.text": "m.emb", f"{mod}.source_file_name": "m.emb"},
    }
    for label, binding in cases.items():
        res.instances += 1
        reached = False
        for st, guards in inserts:
            try:
                if all(bool(_eval_guard(t, binding)) == want for t, want in guards):
                    reached = True
            except ValueError as e:
                raise AnalysisError(f"{f.name}: guard `{e}` is not a test of the two file names")
        if not reached:
            res.add(f"{DC}|{f.name}|{label.replace(' ', '-')}", f"{f.name}: for the case '{label}' no edge is added to the import graph: "
                    + ("a module whose import list names its own file is not reported as an import cycle" if "itself" in label
                       else "imports are dropped from the graph and import cycles go unreported"), DC, loop.lineno, f.name)
    res.samples = [f"{f.name}: edge inserted for ordinary imports and for self-imports of real modules"]
    res.analysed = [DC]
    return res


def cyclepath(repo):
    """R-CYCLEPATH (C15/C16): the dependency graph of the cycle detector has an edge for the *first* component of a field
    reference only (later components are unresolved when the pass runs).  A value that depends on itself through a later
    component -- `struct Foo: ... 1 [+2] Foo f` / `let o = f.o` -- is therefore not a cycle of that graph; nothing reports
    it and type checking follows `o -> f.o -> o` until RecursionError.  Decided: whether the recorder used by
    _find_dependencies looks only at `path[0]` and no pass after `resolve_field_references` searches for cycles again."""
    res = RuleResult("R-CYCLEPATH")
    m = repo.mod(DC)
    fd = [f for f in m.top_funcs() if f.name == "_find_dependencies"]
    if not fd:
        raise AnalysisError("dependency_checker._find_dependencies not found")
    rec = None
    for f in m.top_funcs():
        ps = [a.arg for a in f.node.args.args]
        if "dependencies" in ps and any(isinstance(n, ast.Subscript) and isinstance(n.value, ast.Attribute) and n.value.attr == "path"
                                        for n in walk_no_nested_funcs(f.node)) and f.name in ast.unparse(fd[0].node):
            rec = f
    if rec is None:
        raise AnalysisError("dependency_checker: the recorder of field-reference dependencies was not found")
    subs = [n for n in walk_no_nested_funcs(rec.node) if isinstance(n, ast.Subscript) and isinstance(n.value, ast.Attribute) and n.value.attr == "path"]
    first_only = all(isinstance(s_.slice, ast.Constant) and s_.slice.value == 0 for s_ in subs) and \
        not any(isinstance(n, (ast.For, ast.comprehension)) and "path" in ast.unparse(n.iter) for n in walk_no_nested_funcs(rec.node))
    glue = repo.mod("compiler/front_end/glue.py")
    order = []
    for n in ast.walk(glue.tree):
        if isinstance(n, ast.Assign) and isinstance(n.targets[0], ast.Name) and n.targets[0].id == "passes" and isinstance(n.value, ast.Tuple):
            order = [ast.unparse(e) for e in n.value.elts]
    if not order:
        raise AnalysisError("glue.process_ir: pass list not found")
    res.instances = 2
    try:
        after = order[order.index("symbol_resolver.resolve_field_references") + 1:]
    except ValueError:
        raise AnalysisError("glue.process_ir: resolve_field_references not in the pass list")
    # a later pass counts only if it is a function of dependency_checker whose FieldReference action looks at every
    # component of the path (iterates `reference.path` unsliced, or reads the last component)
    rechecked = False
    byname = {f.name: f for f in m.top_funcs()}
    for pname in after:
        fn = byname.get(pname.split(".")[-1]) if pname.startswith("dependency_checker.") else None
        if fn is None:
            continue
        for c in walk_no_nested_funcs(fn.node):
            if isinstance(c, ast.Call) and (call_name(c) or "").endswith("fast_traverse_ir_top_down") and len(c.args) >= 3 \
                    and "FieldReference" in ast.unparse(c.args[1]) and isinstance(c.args[2], ast.Name) and c.args[2].id in byname:
                act = byname[c.args[2].id]
                for n in walk_no_nested_funcs(act.node):
                    if isinstance(n, ast.For) and ast.unparse(n.iter).endswith(".path"):
                        rechecked = True
                    if isinstance(n, ast.Subscript) and ast.unparse(n.value).endswith(".path") and ast.unparse(n.slice) == "-1":
                        rechecked = True
    if first_only and not rechecked:
        res.add(f"{DC}|{rec.name}|cycle-first-component-only", f"{rec.name} gives the cycle detector an edge for `reference.path[0]` only and "
                "no pass after resolve_field_references looks for cycles again: `let o = f.o` with `f` of the enclosing structure's own "
                "type depends on itself, is not rejected, and ends in RecursionError in type_check", DC, rec.line, rec.name)
    res.samples = [f"first component only: {first_only}; cycle pass after field references are resolved: {rechecked}"]
    res.analysed = [DC, glue.rel]
    return res


def edgeacc(repo, schema=None, sites=None):
    """R-EDGEACC (C15): the dependency graphs are built by traversal actions that are called once per reference, with
    the graph handed in as a shared traversal parameter and the key being the *enclosing* named object -- an object
    that mentions two names is visited twice with the same key.  Every store into such a parameter therefore
    accumulates (`g[k] |= ...`, `g[k].add(...)`, `g.setdefault(k, set())`); a plain `g[k] = {ref}` keeps only the
    last edge and a cycle through an earlier reference disappears from the graph."""
    from .traversal import collect_sites
    from ..irschema import Schema
    res = RuleResult("R-EDGEACC")
    schema = schema or Schema(repo)
    sites = sites if sites is not None else collect_sites(repo, schema)
    seen = set()
    for s in sites:
        if not s.module.rel.endswith("front_end/dependency_checker.py"):
            continue
        funcs = [s.action] + [f for fs in s.incidental.values() for f in fs]
        for f in funcs:
            if f is None or not hasattr(f, "node") or f.fq in seen:
                continue
            seen.add(f.fq)
            params = {a.arg for a in f.node.args.args[1:]} | {a.arg for a in f.node.args.kwonlyargs}
            params -= {"errors", "source_file_name", "ir"}
            for n in walk_no_nested_funcs(f.node):
                if isinstance(n, ast.AugAssign) and isinstance(n.target, ast.Subscript) and isinstance(n.target.value, ast.Name) \
                        and n.target.value.id in params:
                    res.instances += 1
                elif isinstance(n, ast.Call) and isinstance(n.func, ast.Attribute) and n.func.attr in ("setdefault", "add", "update") \
                        and any(isinstance(x, ast.Name) and x.id in params for x in ast.walk(n.func.value)):
                    res.instances += 1
                elif isinstance(n, ast.Assign):
                    for t in n.targets:
                        if isinstance(t, ast.Subscript) and isinstance(t.value, ast.Name) and t.value.id in params:
                            v = n.value
                            empty = (isinstance(v, ast.Call) and call_name(v) in ("set", "dict", "list", "frozenset") and not v.args) or \
                                (isinstance(v, (ast.Dict, ast.List, ast.Set, ast.Tuple)) and not (getattr(v, "keys", None) or getattr(v, "elts", None)))
                            # `g[k] = g[k] | {...}` / `g[k] = g.get(k, set()) | {...}` still accumulate
                            reads_self = any(isinstance(x, ast.Name) and x.id == t.value.id for x in ast.walk(v))
                            guarded = False
                            node = n
                            while node is not None and node is not f.node:
                                parent = s.module.parent(node) if f.file == s.module.rel else repo.by_rel[f.file].parent(node)
                                if isinstance(parent, ast.If) and " not in " in ast.unparse(parent.test) and node in parent.body:
                                    guarded = True
                                node = parent
                            res.instances += 1
                            if not empty and not reads_self and not guarded:
                                res.add(f"{f.file}|{f.qualname}|{t.value.id}", f"{f.qualname} (traversal action at {s.where}) stores "
                                        f"`{ast.unparse(n)[:80]}`: the action runs once per reference with the enclosing object as the "
                                        "key, so the edges recorded for earlier references of the same object are lost and a cycle "
                                        "through them is not found", f.file, n.lineno, f.qualname)
    # the same mistake outside the traversal actions: `A[k] = B[k] | {x}` inside a loop accumulates only when A and B are
    # the same mapping -- with B the *original* graph, every iteration starts again from the original set and only the
    # last added edge survives (the helper that carries the dependencies of anonymous-bits members over to their aliases)
    m = repo.mod("compiler/front_end/dependency_checker.py")
    for f in m.top_funcs():
        for n in walk_no_nested_funcs(f.node):
            if not (isinstance(n, ast.Assign) and len(n.targets) == 1 and isinstance(n.targets[0], ast.Subscript)
                    and isinstance(n.targets[0].value, ast.Name) and isinstance(n.value, ast.BinOp) and isinstance(n.value.op, ast.BitOr)):
                continue
            in_loop = False
            node = n
            while node is not None and node is not f.node:
                node = m.parent(node)
                if isinstance(node, (ast.For, ast.While)):
                    in_loop = True
            if not in_loop:
                continue
            res.instances += 1
            left = n.value.left
            base = left.value if isinstance(left, ast.Subscript) else (left.func.value if isinstance(left, ast.Call) and isinstance(left.func, ast.Attribute)
                                                                         and left.func.attr == "get" else None)
            if isinstance(base, ast.Name) and base.id != n.targets[0].value.id and ast.unparse(left.slice if isinstance(left, ast.Subscript) else left.args[0]) == ast.unparse(n.targets[0].slice):
                res.add(f"{m.rel}|{f.name}|{n.targets[0].value.id}|restart", f"{f.name}: `{ast.unparse(n)[:80]}` inside a loop starts from "
                        f"`{base.id}[...]` each time instead of the accumulated `{n.targets[0].value.id}[...]`: of several added edges only the "
                        "last survives, so a field is ordered before something its condition mentions", m.rel, n.lineno, f.name)
    if res.instances < 3 and not res.findings:
        raise AnalysisError(f"only {res.instances} stores into dependency-graph parameters recognised")
    res.analysed = ["compiler/front_end/dependency_checker.py"]
    return res


def natsort(repo):
    """R-NATSORT (C17): canonical names of anonymous `bits` fields carry a process-wide counter
    (`emboss_reserved_anonymous_field_<n>`), and C17 allows output to differ between interleavings only by that
    numbering.  Ordering such names as plain strings makes `..._10` sort before `..._9` while `..._1` sorts before
    `..._2`: the order of the notes of a dependency cycle then depends on how many anonymous fields were parsed earlier
    in the process.  In dependency_checker.py every sort that decides the order of reported nodes (a `sorted`/`.sort`
    in, or in a helper called from, a function that builds `error.error`/`error.note`) orders digit runs numerically:
    its `key=` resolves to a function that splits on digit runs and converts them with `int`."""
    import re as _re
    res = RuleResult("R-NATSORT")
    m = repo.mod(DC)
    funcs = {f.name: f for f in m.top_funcs()}

    def natural_fn(f):
        src = ast.unparse(f.node)
        return bool(_re.search(r"re\.(split|findall|finditer)\(", src)) and ("[0-9]" in src or "\\\\d" in src or "\\d" in src) and "int(" in src

    def key_is_natural(call, depth=0):
        for k in call.keywords:
            if k.arg == "key":
                names = {x.id for x in ast.walk(k.value) if isinstance(x, ast.Name)}
                if any(n in funcs and (natural_fn(funcs[n]) or sorter_is_natural(funcs[n], depth + 1)) for n in names):
                    return True
        return False

    def sorter_is_natural(f, depth=0):
        """helper that returns a naturally sorted list"""
        if depth > 3:
            return False
        sorts = [c for c in walk_no_nested_funcs(f.node) if isinstance(c, ast.Call) and (call_name(c) == "sorted" or
                 (isinstance(c.func, ast.Attribute) and c.func.attr == "sort"))]
        return bool(sorts) and all(key_is_natural(c, depth) for c in sorts)
    reporters = [f for f in m.top_funcs() if any(isinstance(c, ast.Call) and (call_name(c) or "") in ("error.error", "error.note")
                                                 for c in walk_no_nested_funcs(f.node))]
    if not reporters:
        raise AnalysisError("dependency_checker: no function builds diagnostics")
    for f in reporters:
        for c in walk_no_nested_funcs(f.node):
            if not isinstance(c, ast.Call):
                continue
            is_sort = call_name(c) == "sorted" or (isinstance(c.func, ast.Attribute) and c.func.attr == "sort")
            if not is_sort:
                continue
            res.instances += 1
            if not key_is_natural(c):
                res.add(f"{m.rel}|{f.name}|{ast.unparse(c)[:40]}", f"{f.name}: `{ast.unparse(c)[:80]}` orders node names as plain strings; "
                        "anonymous field names end in a process-wide counter, so `..._10` sorts before `..._9`: the order of the "
                        "reported cycle members changes with the number of anonymous fields parsed earlier in the process",
                        m.rel, c.lineno, f.name)
    for name, f in funcs.items():
        if f in reporters:
            continue
        if any(isinstance(c, ast.Call) and call_name(c) == name for r in reporters for c in walk_no_nested_funcs(r.node)):
            for c in walk_no_nested_funcs(f.node):
                if isinstance(c, ast.Call) and (call_name(c) == "sorted" or (isinstance(c.func, ast.Attribute) and c.func.attr == "sort")):
                    res.instances += 1
                    if not key_is_natural(c):
                        res.add(f"{m.rel}|{name}|{ast.unparse(c)[:40]}", f"{name} (used by a reporting function): `{ast.unparse(c)[:80]}` orders "
                                "node names as plain strings (see R-NATSORT)", m.rel, c.lineno, name)
    if res.instances < 3 and not res.findings:
        raise AnalysisError(f"only {res.instances} sorts of reported nodes found")
    res.analysed = [m.rel]
    return res


def orderedges(repo, schema, sites):
    """R-ORDEREDGES (C15): "every field comes after all fields its location, condition or value mentions".  An expression
    can mention a sibling in as many ways as Expression has reference-typed alternatives in the IR schema
    (`field_reference: FieldReference` for `k`, `constant_reference: Reference` for `Foo.k` written inside Foo).  The
    function that fills the ordering graph (the one that runs the per-Structure ordering action) must have one traversal
    per such alternative feeding the same `dependencies` table."""
    res = RuleResult("R-ORDEREDGES")
    alts = {}
    for member, info in schema.classes.get("Expression", {}).items():
        if info.oneof and info.type in ("Reference", "FieldReference"):
            alts[info.type] = member
    if len(alts) < 2:
        raise AnalysisError(f"IR schema: reference-typed alternatives of Expression found: {alts}")
    m = repo.mod(DC)
    fn = None
    for s_ in sites:
        if s_.module.rel == DC and s_.pattern and s_.pattern[-1] == "Structure" and s_.action is not None \
                and "ordering" in s_.action.name:
            fn = s_.func
    if fn is None:
        raise AnalysisError("dependency_checker: the traversal that runs the per-Structure ordering action was not found")
    covered = {}
    for s_ in sites:
        if s_.func is fn and s_.pattern and "dependencies" in ast.unparse(s_.call):
            covered.setdefault(s_.pattern[-1], s_)
    for t, member in sorted(alts.items()):
        res.instances += 1
        if t not in covered:
            res.add(f"{DC}|{fn.name}|{t}", f"{fn.name} builds the ordering graph from {sorted(k for k in covered if k != 'Structure')} only: "
                    f"a sibling named through Expression.{member} ({t}; e.g. `0 [+Foo.k] UInt a` before `let k = 4` inside Foo) is "
                    "no edge, so the field is ordered before the field its location/value mentions", DC, fn.line, fn.name)
        elif len(res.samples) < 3:
            res.samples.append(f"{t} ({member}): {covered[t].action.name if covered[t].action else '?'}")
    res.analysed = [DC]
    return res


def aliasedge(repo):
    """R-ALIASEDGE (C15): every reference to a member of an anonymous `bits` goes through a compiler-made alias
    `let a = <anonymous field>.a`, of which the cycle graph sees only the head.  What the member itself depends on (a
    static reference in its size or condition) is recorded under the member's own name, so a cycle `member -> Foo.k ->
    alias a` is open unless the graph has the edge alias -> member.  Decided: _find_dependencies runs, over every
    Structure, an action that takes the (alias, member) pairs from a recogniser of such aliases (`is_anonymous`, the
    second path component) and accumulates `dependencies[alias] |= {member}`."""
    res = RuleResult("R-ALIASEDGE")
    m = repo.mod(DC)
    byname = {f.name: f for f in m.top_funcs()}
    fd = byname.get("_find_dependencies")
    if fd is None:
        raise AnalysisError("dependency_checker._find_dependencies not found")
    res.instances = 2
    ok = False
    for c in walk_no_nested_funcs(fd.node):
        if isinstance(c, ast.Call) and (call_name(c) or "").endswith("fast_traverse_ir_top_down") and len(c.args) >= 3 \
                and "Structure" in ast.unparse(c.args[1]) and isinstance(c.args[2], ast.Name) and c.args[2].id in byname:
            act = byname[c.args[2].id]
            src = ast.unparse(act.node)
            # recogniser: the action itself or a helper it iterates
            helpers = [byname[call_name(x)] for x in walk_no_nested_funcs(act.node) if isinstance(x, ast.Call) and call_name(x) in byname]
            recog = any("is_anonymous" in ast.unparse(h.node) and re.search(r"path\[1\]", ast.unparse(h.node)) for h in helpers + [act])
            adds = any(isinstance(x, ast.AugAssign) and isinstance(x.op, ast.BitOr) and isinstance(x.target, ast.Subscript)
                       and ast.unparse(x.target.value) == "dependencies" for x in walk_no_nested_funcs(act.node)) or \
                bool(re.search(r"dependencies\[\w+\]\.(add|update)\(", src))
            if recog and adds:
                ok = True
    if not ok:
        res.add(f"{DC}|_find_dependencies|alias-member-edge", "the cycle graph has no edge from the alias of an anonymous-`bits` member to the member: "
                "`0 [+1] bits:` / `0 [+Foo.k] UInt a` with `let k = $upper_bound(a)` is not reported as a cycle and the bounds pass ends "
                "in TypeError (int(None)); with `let k = 0*b + 4` the cyclic module is accepted", DC, fd.line, "_find_dependencies")
    res.analysed = [DC]
    return res
