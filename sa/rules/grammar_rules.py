"""R-GRAMMAR-EQ, R-HANDLER, R-LOADER, R-CONFLICT."""
from __future__ import annotations

import ast

from .. import grammar as G
from ..pyfacts import Repo, call_name, dotted_name, func_params, walk_no_nested_funcs
from ..report import AnalysisError, RuleResult


def _ps(p):
    return f"{p[0]} -> {' '.join(p[1])}"


def grammar_eq(repo, with_cache=True):
    """P_ir == P_fmt == P_cache\\{S'} == P_doc."""
    res = RuleResult("R-GRAMMAR-EQ")
    g = G.ir_grammar(repo)
    P_ir = g["productions"]
    sir = set(P_ir)
    if len(sir) != len(P_ir):
        res.add("module_ir|duplicate", "duplicate production registered by @_handles",
                G.MODULE_IR)
    fm = G.fmt_grammar(repo)
    seenf = {}
    for p, f, dec, dnode in fm.entries:
        if p in seenf:
            res.add(f"format_emb|dup|{_ps(p)}", f"production '{_ps(p)}' has two formatters "
                    f"({seenf[p].name}, {f.name})", G.FORMAT_EMB, dnode.lineno, f.name)
        seenf[p] = f
    sfmt = set(fm.productions())
    for p in sorted(sir - sfmt):
        res.add(f"format_emb|missing|{_ps(p)}", f"production '{_ps(p)}' of the IR grammar has no "
                "@_formats formatter (formatter raises KeyError on inputs using it)", G.FORMAT_EMB)
    for p in sorted(sfmt - sir):
        f = seenf[p]
        res.add(f"format_emb|extra|{_ps(p)}", f"formatter registered for '{_ps(p)}', which is not "
                "a production of the IR grammar", G.FORMAT_EMB, f.line, f.name)
    pdoc, _ = G.doc_grammar(repo)
    sdoc = set(pdoc)
    for p in sorted(sir - sdoc):
        res.add(f"doc|missing|{_ps(p)}", f"production '{_ps(p)}' is not in doc/grammar.md", G.GRAMMAR_MD)
    for p in sorted(sdoc - sir):
        res.add(f"doc|extra|{_ps(p)}", f"doc/grammar.md lists '{_ps(p)}', not a production of the "
                "grammar in module_ir.py", G.GRAMMAR_MD)
    res.instances = len(sir) * 3
    if with_cache:
        cp = G.CachedParser(repo)
        for fname, start in (("module_parser", g["start"]), ("expression_parser", g["expr_start"])):
            if fname not in cp.parsers:
                raise AnalysisError(f"cached_parser.py: function {fname} vanished")
            sc = {(p[1], p[2]) for p in cp.parsers[fname]["productions"]}
            want = sir | {("S'", (start,))}
            for p in sorted(want - sc):
                res.add(f"cache|{fname}|missing|{_ps(p)}", f"cached {fname} lacks production "
                        f"'{_ps(p)}' (cache is stale; embossc silently regenerates at start-up)", G.CACHED)
            for p in sorted(sc - want):
                res.add(f"cache|{fname}|extra|{_ps(p)}", f"cached {fname} has production "
                        f"'{_ps(p)}' that the grammar lacks", G.CACHED)
            res.instances += len(want)
    res.samples = [_ps(p) for p in sorted(sir)[:3]]
    res.analysed = [G.MODULE_IR, G.FORMAT_EMB, G.GRAMMAR_MD] + ([G.CACHED] if with_cache else [])
    res.detail = {"P_ir": len(sir), "P_fmt": len(sfmt), "P_doc": len(sdoc)}
    return res


def _lambda_arity(lam):
    a = lam.args
    return len(a.posonlyargs + a.args), a.vararg is not None


def handler_arity(repo):
    """Handler positional arity == len(rhs) (+1 for _formats_with_config)."""
    res = RuleResult("R-HANDLER")
    g = G.ir_grammar(repo)
    fm = G.fmt_grammar(repo)
    for dp, where in ((g["decorated"], G.MODULE_IR), (fm, G.FORMAT_EMB)):
        for p, f, dec, dnode in dp.entries:
            pos, with_def, kwonly, vararg, varkw = func_params(f.node)
            res.instances += 1
            if vararg:
                continue
            want = len(p[1]) + (1 if dec == "_formats_with_config" else 0)
            required = len(pos) - len(with_def)
            if not (required <= want <= len(pos)):
                res.add(f"{where}|{f.name}|{_ps(p)}",
                        f"handler {f.name} takes {len(pos)} positional parameters but production "
                        f"'{_ps(p)}' supplies {want}", where, dnode.lineno, f.name)
    # closure templates registered with lambdas
    m = repo.mod(G.MODULE_IR)
    fn = g["closure_fn"]
    for c in ast.walk(fn.node):
        if (isinstance(c, ast.Call) and isinstance(c.func, ast.Call)
                and call_name(c.func) == "_handles" and c.args and isinstance(c.args[0], ast.Lambda)):
            fmtcall = c.func.args[0]
            if isinstance(fmtcall, ast.Call) and isinstance(fmtcall.func, ast.Attribute) and isinstance(fmtcall.func.value, ast.Constant):
                tpl = fmtcall.func.value.value
                p = G.parse_production(tpl.format(s="x"))
                n, var = _lambda_arity(c.args[0])
                res.instances += 1
                if not var and n != len(p[1]):
                    res.add(f"{G.MODULE_IR}|closure|{tpl}", f"closure lambda for '{tpl}' takes {n} "
                            f"arguments, production supplies {len(p[1])}", G.MODULE_IR, c.lineno, fn.name)
    res.samples = [f"{f.name} <- {_ps(p)}" for p, f, _, _ in g["decorated"].entries[:2]]
    res.analysed = [G.MODULE_IR, G.FORMAT_EMB]
    return res


def loader(repo):
    """parser._load_*_parser: compare cached productions with module_ir.PRODUCTIONS ∪ {S'->start}
    and fall back to make_parser.build_* on mismatch."""
    res = RuleResult("R-LOADER")
    m = repo.mod("compiler/front_end/parser.py")
    loaders = []
    for f in m.top_funcs():
        calls = [call_name(c) for c in ast.walk(f.node) if isinstance(c, ast.Call)]
        cached = [c for c in calls if c and c.startswith("cached_parser.")]
        if cached:
            loaders.append((f, cached[0].split(".")[1]))
    if len(loaders) < 2:
        raise AnalysisError("parser.py: fewer than two functions load a cached parser")
    expect = {"module_parser": ("START_SYMBOL", "build_module_parser"),
              "expression_parser": ("EXPRESSION_START_SYMBOL", "build_expression_parser")}
    for f, which in loaders:
        res.instances += 1
        start_sym, builder = expect.get(which, (None, None))
        if start_sym is None:
            res.add(f"parser|{f.name}", f"unknown cached parser {which}", m.rel, f.line, f.name)
            continue
        src = m.seg(f.node)
        # 1. the production set compared is PRODUCTIONS ∪ {Production(START_PRIME,(start,))}
        ok_set = False
        var = None
        for n in ast.walk(f.node):
            if isinstance(n, ast.Assign) and isinstance(n.value, ast.BinOp) and isinstance(n.value.op, ast.BitOr):
                text = ast.unparse(n.value)
                if ("module_ir.PRODUCTIONS" in text and "START_PRIME" in text
                        and f"module_ir.{start_sym}" in text):
                    other = "EXPRESSION_START_SYMBOL" if start_sym == "START_SYMBOL" else "module_ir.START_SYMBOL"
                    if start_sym == "START_SYMBOL" and "EXPRESSION_START_SYMBOL" in text:
                        continue
                    ok_set = True
                    var = n.targets[0].id if isinstance(n.targets[0], ast.Name) else None
        if not ok_set:
            res.add(f"parser|{f.name}|set", f"{f.name} does not build PRODUCTIONS ∪ {{S' -> module_ir.{start_sym}}} "
                    "for the validity comparison", m.rel, f.line, f.name)
            continue
        # 2. an `if <cached>.productions == var: return cached` guard, and all other returns
        #    construct from make_parser.<builder>()
        guard = None
        for n in f.node.body:
            if isinstance(n, ast.If) and isinstance(n.test, ast.Compare) and len(n.test.ops) == 1 \
                    and isinstance(n.test.ops[0], ast.Eq):
                sides = {ast.unparse(n.test.left), ast.unparse(n.test.comparators[0])}
                if var in sides and any(s.endswith(".productions") for s in sides):
                    guard = n
        if guard is None:
            res.add(f"parser|{f.name}|guard", f"{f.name}: cached parser is not guarded by "
                    "'<cached>.productions == <expected set>'", m.rel, f.line, f.name)
            continue
        # returns outside the guard must call the builder
        for n in walk_no_nested_funcs(f.node):
            if isinstance(n, ast.Return):
                inside = False
                p = m.parent(n)
                while p is not None and p is not f.node:
                    if p is guard and n in ast.walk(ast.Module(body=guard.body, type_ignores=[])):
                        inside = True
                    p = m.parent(p)
                text = ast.unparse(n.value) if n.value else ""
                if inside:
                    continue
                if f"make_parser.{builder}()" not in text:
                    res.add(f"parser|{f.name}|fallback", f"{f.name}: fall-back path does not return "
                            f"make_parser.{builder}()", m.rel, n.lineno, f.name)
    # make_parser.build_* use the matching start symbol
    mp = repo.mod("compiler/front_end/make_parser.py")
    for bname, sym in (("build_module_parser", "START_SYMBOL"), ("build_expression_parser", "EXPRESSION_START_SYMBOL")):
        f = mp.funcs.get(bname)
        res.instances += 1
        if f is None:
            raise AnalysisError(f"make_parser.{bname} vanished")
        ok = False
        for c in ast.walk(f.node):
            if isinstance(c, ast.Call) and call_name(c) == "generate_parser" and c.args:
                a0 = ast.unparse(c.args[0])
                a1 = ast.unparse(c.args[1]) if len(c.args) > 1 else ""
                if a0 == f"module_ir.{sym}" and "module_ir.PRODUCTIONS" in a1:
                    ok = True
        if not ok:
            res.add(f"make_parser|{bname}", f"{bname} does not call generate_parser(module_ir.{sym}, "
                    "…module_ir.PRODUCTIONS…)", mp.rel, f.line, bname)
    res.samples = [f"{f.name} -> cached_parser.{w}" for f, w in loaders]
    res.analysed = [m.rel, mp.rel]
    return res


def conflict(repo):
    """make_parser.generate_parser: every path to `return parser` passes
    `if parser.conflicts: raise`; nobody else calls Grammar(...).parser()."""
    res = RuleResult("R-CONFLICT")
    mp = repo.mod("compiler/front_end/make_parser.py")
    gens = []
    for f in mp.top_funcs():
        for c in ast.walk(f.node):
            if isinstance(c, ast.Call) and isinstance(c.func, ast.Attribute) and c.func.attr == "parser" \
                    and isinstance(c.func.value, ast.Call) and (call_name(c.func.value) or "").endswith("Grammar"):
                gens.append((f, c))
    if not gens:
        raise AnalysisError("make_parser.py: no function builds Grammar(...).parser()")
    for f, c in gens:
        res.instances += 1
        # the statement assigning the parser, followed (before any return) by if X.conflicts: raise
        body = f.node.body
        idx = None
        var = None
        for i, st in enumerate(body):
            if isinstance(st, ast.Assign) and c in list(ast.walk(st)):
                idx = i
                var = st.targets[0].id if isinstance(st.targets[0], ast.Name) else None
        if idx is None or var is None:
            res.add(f"make_parser|{f.name}|assign", "Grammar(...).parser() result is not bound to a "
                    "local at function top level; conflict check cannot be established", mp.rel, c.lineno, f.name)
            continue
        ok = False
        for st in body[idx + 1:]:
            if isinstance(st, ast.If) and ast.unparse(st.test) == f"{var}.conflicts" and \
                    st.body and isinstance(st.body[0], ast.Raise):
                ok = True
                break
            if any(isinstance(n, ast.Return) for n in ast.walk(st)):
                break
        if not ok:
            res.add(f"make_parser|{f.name}|conflicts", f"{f.name}: no 'if {var}.conflicts: raise' before "
                    "the parser is returned — an ambiguous grammar would be accepted silently",
                    mp.rel, f.line, f.name)
    # who-may-call: Grammar( ... ).parser() / lr1.Grammar outside make_parser and lr1 itself
    for m in repo.compile_path_modules():
        if m.rel in ("compiler/front_end/make_parser.py", "compiler/front_end/lr1.py"):
            continue
        for c in ast.walk(m.tree):
            if isinstance(c, ast.Call) and (call_name(c) or "").endswith("lr1.Grammar"):
                res.add(f"{m.rel}|Grammar", "lr1.Grammar constructed outside make_parser (bypasses the "
                        "conflict check)", m.rel, c.lineno)
        res.instances += 1
    res.samples = [f"{f.name}: Grammar(...).parser() then conflicts check" for f, _ in gens]
    res.analysed = [mp.rel]
    return res


# ---- positive controls ------------------------------------------------------------
def control_grammar_eq(repo):
    """Drop one @_formats decorator in an overlay: R-GRAMMAR-EQ must fire."""
    from ..pyfacts import remove_lines
    fm = G.fmt_grammar(repo)
    if not fm.entries:
        return False
    dnode = fm.entries[len(fm.entries) // 2][3]
    new = remove_lines(repo.read(G.FORMAT_EMB), dnode)
    r2 = Repo(repo.root, overlay={G.FORMAT_EMB: new})
    return bool(grammar_eq(r2, with_cache=False).findings)


def control_handler(repo):
    """Drop the last parameter of one handler in an overlay: R-HANDLER must fire."""
    from ..pyfacts import replace_span
    g = G.ir_grammar(repo)
    for p, f, dec, dnode in g["decorated"].entries:
        a = f.node.args
        if len(a.args) >= 2 and not a.vararg and not a.defaults:
            new = replace_span(repo.read(G.MODULE_IR), a.args[-1], "ctl_a, ctl_b")
            r2 = Repo(repo.root, overlay={G.MODULE_IR: new})
            return bool(handler_arity(r2).findings)
    return False
