"""C++ facts through clang 14's front end: JSON AST of runtime/cpp/*.h.

Gives, per class (templates included, uninstantiated): methods with parameter lists, the
source text of their bodies, and normalised statement skeletons used by the sibling / twin /
no-abort rules.  Nothing is compiled to a binary or run.
"""
from __future__ import annotations

import hashlib
import json
import os
import pickle
import re
import shutil
import subprocess
import tempfile

from .report import AnalysisError, VERIF

RUNTIME = "runtime/cpp"
HEADERS = [
    "emboss_defines.h", "emboss_cpp_types.h", "emboss_cpp_util.h", "emboss_bit_util.h", "emboss_maybe.h",
    "emboss_memory_util.h", "emboss_arithmetic.h", "emboss_constant_view.h", "emboss_view_parameters.h",
    "emboss_text_util.h", "emboss_enum_view.h", "emboss_array_view.h", "emboss_prelude.h",
]


def clang():
    for c in ("clang++-14", "clang++"):
        p = shutil.which(c)
        if p:
            return p
    raise AnalysisError("clang++ not found")


class Method:
    __slots__ = ("cls", "name", "params", "ret", "file", "begin", "end", "body", "line", "is_static", "is_const",
                 "template_params", "kind", "decl_text")

    def __repr__(self):
        return f"<{self.cls}::{self.name}({', '.join(p[1] for p in self.params)})>"


class CppFacts:
    def __init__(self, repo, std="c++14"):
        self.repo = repo
        self.root = repo.root
        self.files = {}
        present = [h for h in HEADERS if repo.exists(f"{RUNTIME}/{h}")]
        if len(present) < 10:
            raise AnalysisError(f"runtime headers missing: {sorted(set(HEADERS) - set(present))}")
        self.headers = present
        h = hashlib.sha256()
        for hd in present:
            h.update(repo.read(f"{RUNTIME}/{hd}").encode())
        h.update(std.encode())
        h.update(b"v2")
        key = h.hexdigest()[:24]
        cdir = os.path.join(VERIF, ".cache")
        cpath = os.path.join(cdir, f"cppfacts.{key}.pkl")
        data = None
        if os.path.exists(cpath) and not repo.overlay:
            try:
                with open(cpath, "rb") as fh:
                    data = pickle.load(fh)
            except Exception:
                data = None
        if data is None:
            data = self._extract(std)
            if not repo.overlay:
                try:
                    os.makedirs(cdir, exist_ok=True)
                    tmp = cpath + f".{os.getpid()}.tmp"
                    with open(tmp, "wb") as fh:
                        pickle.dump(data, fh, protocol=pickle.HIGHEST_PROTOCOL)
                    os.replace(tmp, cpath)
                except OSError:
                    pass
        self.methods, self.functions, self.classes = data

    # ------------------------------------------------------------------
    def _materialise(self, tmp):
        """Writes the (possibly overlaid) runtime headers into a scratch include root."""
        inc = os.path.join(tmp, "inc")
        os.makedirs(os.path.join(inc, RUNTIME), exist_ok=True)
        for name in os.listdir(os.path.join(self.root, RUNTIME)):
            if name.endswith(".h"):
                with open(os.path.join(inc, RUNTIME, name), "w") as fh:
                    fh.write(self.repo.read(f"{RUNTIME}/{name}"))
        return inc

    def _extract(self, std):
        tmp = tempfile.mkdtemp(prefix="verif_cpp_")
        try:
            inc = self._materialise(tmp)
            tu = os.path.join(tmp, "tu.cc")
            with open(tu, "w") as fh:
                for hd in self.headers:
                    fh.write(f'#include "{RUNTIME}/{hd}"\n')
            out = os.path.join(tmp, "ast.json")
            with open(out, "w") as fo:
                p = subprocess.run([clang(), f"-std={std}", "-fsyntax-only", "-I", inc, "-Xclang", "-ast-dump=json",
                                    "-Xclang", "-ast-dump-filter=emboss", tu], stdout=fo, stderr=subprocess.PIPE, text=True)
            if p.returncode != 0:
                raise AnalysisError("runtime headers do not compile under clang -fsyntax-only: " + p.stderr[:600])
            with open(out) as fh:
                text = fh.read()
            return self._walk_all(text, inc)
        finally:
            shutil.rmtree(tmp, ignore_errors=True)

    def _src(self, inc, path):
        rel = os.path.relpath(path, inc) if path.startswith(inc) else path
        if rel not in self.files:
            try:
                self.files[rel] = self.repo.read(rel)
            except AnalysisError:
                self.files[rel] = ""
        return rel, self.files[rel]

    def _walk_all(self, text, inc):
        dec = json.JSONDecoder()
        i = 0
        n = len(text)
        methods, functions, classes = [], [], {}
        state = {"file": None}
        seen = set()
        while i < n:
            while i < n and text[i].isspace():
                i += 1
            if i >= n:
                break
            obj, j = dec.raw_decode(text, i)
            i = j
            self._walk(obj, [], state, inc, methods, functions, classes, seen)
        return methods, functions, classes

    @staticmethod
    def _loc(obj, state):
        """Resolves a bare location dict (delta-encoded file) -> (file, offset, line)."""
        if not isinstance(obj, dict):
            return None
        if "expansionLoc" in obj:
            # visit spelling first to keep clang's delta order (spellingLoc is printed first)
            if "spellingLoc" in obj and "file" in obj["spellingLoc"]:
                state["file"] = obj["spellingLoc"]["file"]
            obj = obj["expansionLoc"]
        if "file" in obj:
            state["file"] = obj["file"]
        if "offset" not in obj:
            return None
        return (state["file"], obj["offset"], obj.get("line"), obj.get("tokLen", 0))

    def _walk(self, node, ctx, state, inc, methods, functions, classes, seen):
        if not isinstance(node, dict):
            return
        kind = node.get("kind")
        # keep the delta-encoded current file up to date in document order
        loc = self._loc(node.get("loc"), state) if "loc" in node else None
        rng = node.get("range")
        rb = re_ = None
        if isinstance(rng, dict):
            rb = self._loc(rng.get("begin"), state)
            re_ = self._loc(rng.get("end"), state)
        name = node.get("name")
        new_ctx = ctx
        if kind in ("NamespaceDecl",):
            new_ctx = ctx + [("ns", name or "")]
        elif kind in ("CXXRecordDecl", "ClassTemplateSpecializationDecl", "ClassTemplatePartialSpecializationDecl"):
            if node.get("completeDefinition") or node.get("inner"):
                new_ctx = ctx + [("class", name or "")]
                q = "::".join(c[1] for c in new_ctx if c[0] == "class")
                if rb and re_ and node.get("inner"):
                    classes.setdefault(q, []).append({"file": os.path.relpath(rb[0], inc) if rb[0].startswith(inc) else rb[0], "begin": rb[1], "end": re_[1] + re_[3],
                                                      "kind": kind, "line": rb[2]})
        elif kind in ("CXXMethodDecl", "FunctionDecl", "CXXConstructorDecl", "CXXConversionDecl"):
            body = None
            params = []
            for ch in node.get("inner", []) or []:
                if ch.get("kind") == "ParmVarDecl":
                    params.append((ch.get("type", {}).get("qualType", ""), ch.get("name", "")))
            # compound body range
            for ch in node.get("inner", []) or []:
                if ch.get("kind") == "CompoundStmt":
                    body = ch
            if body is not None and rb is not None:
                # walk the children first to keep delta state exact, then slice
                st2 = dict(state)
                bb = self._loc(body["range"].get("begin"), st2)
                be = self._loc(body["range"].get("end"), st2)
                if bb and be and bb[0] == be[0]:
                    rel, src = self._src(inc, bb[0])
                    key = (rel, bb[1])
                    if key not in seen:
                        seen.add(key)
                        m = Method()
                        m.cls = "::".join(c[1] for c in ctx if c[0] == "class")
                        m.name = name or ""
                        m.params = params
                        m.ret = node.get("type", {}).get("qualType", "")
                        m.file = rel
                        m.begin, m.end = bb[1], be[1] + 1
                        m.body = src[m.begin:m.end]
                        m.line = src.count("\n", 0, m.begin) + 1
                        m.is_static = node.get("storageClass") == "static"
                        m.is_const = " const" in m.ret.rsplit(")", 1)[-1] if ")" in m.ret else False
                        m.kind = kind
                        m.template_params = [c[1] for c in ctx if c[0] == "tparam"]
                        decl_begin = rb[1] if rb[0] == bb[0] else m.begin
                        m.decl_text = src[decl_begin:m.begin]
                        (methods if m.cls else functions).append(m)
        elif kind in ("FunctionTemplateDecl", "ClassTemplateDecl"):
            tps = [("tparam", ch.get("name", "")) for ch in node.get("inner", []) or []
                   if ch.get("kind") in ("TemplateTypeParmDecl", "NonTypeTemplateParmDecl", "TemplateTemplateParmDecl")]
            new_ctx = ctx + tps
        for ch in node.get("inner", []) or []:
            self._walk(ch, new_ctx, state, inc, methods, functions, classes, seen)

    # ------------------------------------------------------------------
    def by_class(self, cls):
        return [m for m in self.methods if m.cls == cls or m.cls.endswith("::" + cls)]

    def method(self, cls, name):
        return [m for m in self.by_class(cls) if m.name == name]

    def class_names(self):
        return sorted({m.cls for m in self.methods})


# ---- body normalisation ------------------------------------------------------------------------
_COMMENT = re.compile(r"//[^\n]*|/\*.*?\*/", re.S)
_TOKEN = re.compile(r"[A-Za-z_][A-Za-z_0-9]*|0[xX][0-9a-fA-F]+[uUlL]*|\d+[uUlL]*|::|->|<<=|>>=|<<|>>|<=|>=|==|!=|&&|\|\||[-+*/%&|^~!<>=?:;,.(){}\[\]]|\"(?:[^\"\\]|\\.)*\"|'(?:[^'\\]|\\.)*'")


def tokens(text):
    return _TOKEN.findall(_COMMENT.sub(" ", text))


def statements(body):
    """Top-level statements of a compound body (text split on ';' and braces at depth 1)."""
    t = _COMMENT.sub(" ", body).strip()
    if t.startswith("{") and t.endswith("}"):
        t = t[1:-1]
    out, depth, cur = [], 0, []
    pd = 0
    for ch in t:
        cur.append(ch)
        if ch in "({[":
            if ch == "{":
                depth += 1
            else:
                pd += 1
        elif ch in ")}]":
            if ch == "}":
                depth -= 1
                if depth == 0 and pd == 0:
                    out.append("".join(cur).strip())
                    cur = []
            else:
                pd -= 1
        elif ch == ";" and depth == 0 and pd == 0:
            out.append("".join(cur).strip())
            cur = []
    rest = "".join(cur).strip()
    if rest:
        out.append(rest)
    return [s for s in out if s and s != ";"]


CHECK_RE = re.compile(r"^EMBOSS_D?CHECK(_[A-Z]+)?\s*\(")


def is_check(stmt):
    return bool(CHECK_RE.match(stmt))


def skeleton(body, drop_checks=False, erase=()):
    """Token list of the body with comments removed; optionally drop EMBOSS_CHECK statements and
    erase identifier prefixes (e.g. 'Unchecked')."""
    stmts = statements(body)
    if drop_checks:
        stmts = [s for s in stmts if not is_check(s)]
    toks = []
    for s in stmts:
        for t in tokens(s):
            for e in erase:
                if t.startswith(e) and len(t) > len(e):
                    t = t[len(e):]
            toks.append(t)
    return toks
