"""generated_code_templates -> {name: (text, placeholders, first line)} following
code_template.parse_templates (delimiter lines `** name **`, `//`-only lines stripped)."""
from __future__ import annotations

import re

from .report import AnalysisError

TEMPLATES = "compiler/back_end/cpp/generated_code_templates"
_DELIM = re.compile(r"^\W*\*\* ([A-Za-z][A-Za-z0-9_]*) \*\*\W*$")
_COMMENT = re.compile(r"^\s*//.*$")
# string.Template placeholder syntax
_PH = re.compile(r"\$(?:(\$)|([_a-zA-Z][_a-zA-Z0-9]*)|\{([_a-zA-Z][_a-zA-Z0-9]*)\}|())")


class Templates:
    def __init__(self, repo):
        text = repo.read(TEMPLATES)
        self.templates = {}
        name = None
        buf = []
        start = 0
        for i, line in enumerate(text.splitlines(), 1):
            m = _DELIM.match(line)
            if m:
                if name:
                    self._finish(name, buf, start)
                name = m.group(1)
                buf = []
                start = i
            elif not _COMMENT.match(line):
                buf.append(line)
        if name:
            self._finish(name, buf, start)
        if len(self.templates) < 30:
            raise AnalysisError(f"only {len(self.templates)} templates parsed")

    def _finish(self, name, buf, start):
        body = "\n".join(buf)
        phs = set()
        bad = []
        for m in _PH.finditer(body):
            if m.group(1) is not None:
                continue
            if m.group(2) or m.group(3):
                phs.add(m.group(2) or m.group(3))
            else:
                bad.append(m.start())
        self.templates[name] = {"text": body, "placeholders": phs, "line": start, "invalid": bad}

    def __contains__(self, n):
        return n in self.templates

    def __getitem__(self, n):
        return self.templates[n]

    def names(self):
        return list(self.templates)
