"""Findings, rule results, known-findings matching, evidence writer, exit codes.

Exit codes of every check: 0 ok, 1 VIOLATION, 2 ANALYSIS-ERROR.
"""
from __future__ import annotations

import dataclasses
import json
import os
import sys
import time
import traceback

VERIF = os.path.dirname(os.path.dirname(os.path.abspath(__file__)))
REPO = os.environ.get("EMBOSS_REPO", "/repo")


class AnalysisError(Exception):
    """An anchor vanished / a construct cannot be interpreted / floor not met."""


@dataclasses.dataclass
class Finding:
    rule: str
    construct: str  # stable key of the offending construct (no line numbers)
    message: str
    file: str = ""
    line: int = 0
    function: str = ""

    @property
    def key(self):
        return f"{self.rule}|{self.construct}"

    def as_dict(self):
        return {
            "rule": self.rule,
            "construct": self.construct,
            "key": self.key,
            "file": self.file,
            "line": self.line,
            "function": self.function,
            "message": self.message,
        }

    def __str__(self):
        loc = f"{self.file}:{self.line}" if self.file else "?"
        fn = f" in {self.function}" if self.function else ""
        return f"[{self.rule}] {loc}{fn}: {self.message} (key={self.key})"


@dataclasses.dataclass
class RuleResult:
    rule: str
    instances: int = 0  # rule instances examined (obligations)
    findings: list = dataclasses.field(default_factory=list)
    samples: list = dataclasses.field(default_factory=list)
    notes: list = dataclasses.field(default_factory=list)
    analysed: list = dataclasses.field(default_factory=list)  # files/functions
    control_fired: bool | None = None  # positive control status
    detail: dict = dataclasses.field(default_factory=dict)

    def add(self, construct, message, file="", line=0, function=""):
        self.findings.append(
            Finding(self.rule, construct, message, file, line, function)
        )


def load_known_findings(path=None):
    """Returns (findings: {key: (property, text)}, fixed: [line])."""
    path = path or os.path.join(VERIF, "known_findings.txt")
    known = {}
    fixed = []
    if not os.path.exists(path):
        return known, fixed
    for raw in open(path, encoding="utf-8"):
        line = raw.strip()
        if not line or line.startswith("#"):
            continue
        if line.startswith("finding:"):
            body = line[len("finding:"):].strip()
            # finding: property=C07 key=<rule>|<construct> :: text
            head, _, text = body.partition(" :: ")  # keys may contain C++ `::`
            parts = head.split()
            prop = key = None
            for i, p in enumerate(parts):
                if p.startswith("property="):
                    prop = p[len("property="):]
                elif p.startswith("key="):
                    key = " ".join([p[len("key="):]] + parts[i + 1:])
                    break
            if prop and key:
                known[(prop, key.strip())] = text.strip()
        elif line.startswith("fixed:"):
            fixed.append(line)
    return known, fixed


class Check:
    """Driver for one property: runs rules, applies floors, writes evidence."""

    def __init__(self, prop, tier, level="other", explanation="", assumptions=()):
        self.prop = prop
        self.tier = tier
        self.level = level
        self.explanation = explanation
        self.assumptions = list(assumptions)
        self.results: list[RuleResult] = []
        self.errors: list[str] = []
        self.t0 = time.time()
        self.extra_coverage = {}
        try:
            self.seed = int(os.environ.get("VERIF_SEED", "0"))
        except ValueError:
            self.seed = 0

    def run(self, rule_name, fn, *args, floor=0, control=None, **kw):
        """Runs fn(*args) -> RuleResult, enforcing floor and positive control."""
        try:
            res = fn(*args, **kw)
            if res.rule != rule_name:
                res.rule = rule_name
                for f in res.findings:
                    f.rule = rule_name
            if res.instances < floor and not res.findings:  # a rule that reports a violation may stop early
                self.errors.append(
                    f"{rule_name}: only {res.instances} instances analysed, "
                    f"floor confirmed by hand is {floor} (anchor moved or rule blind)"
                )
            if control is not None:
                try:
                    fired = bool(control())
                except Exception as e:  # control itself broke
                    fired = False
                    self.errors.append(
                        f"{rule_name}: positive control raised {type(e).__name__}: {e}"
                    )
                res.control_fired = fired
                if not fired:
                    self.errors.append(
                        f"{rule_name}: positive control did not fire (rule is blind)"
                    )
            self.results.append(res)
            return res
        except AnalysisError as e:
            self.errors.append(f"{rule_name}: {e}")
        except Exception as e:
            self.errors.append(
                f"{rule_name}: internal error {type(e).__name__}: {e}\n"
                + traceback.format_exc()
            )
        res = RuleResult(rule_name)
        self.results.append(res)
        return res

    def finish(self):
        if self.tier == "thorough":
            try:
                from . import selfcontrol
                ctl = selfcontrol.run_controls(self.prop)
            except Exception as e:
                ctl = None
                self.errors.append(f"mutation controls could not run: {type(e).__name__}: {e}")
            if ctl is not None:
                self.extra_coverage["mutation_controls"] = ctl
                # a stale catalogue entry (its target text no longer exists) is a note, not an error: the tree may
                # legitimately have changed; a control that applies but is not caught is an analysis error
                missed = sorted(k for k, v in ctl.items() if v in ("missed", "broken"))
                if missed:
                    self.errors.append(f"mutation controls not caught: {missed} (the check has lost sight of these change classes)")
                print(f"  mutation controls: {sum(1 for v in ctl.values() if v == 'caught')} caught, "
                      f"{len(missed)} missed, {sum(1 for v in ctl.values() if v == 'stale')} stale of {len(ctl)}")
        known, _fixed = load_known_findings()
        all_findings = [f for r in self.results for f in r.findings]
        new, listed = [], []
        seen_keys = set()
        for f in all_findings:
            if (self.prop, f.key) in known:
                if f.key not in seen_keys:
                    listed.append(f)
            else:
                new.append(f)
            seen_keys.add(f.key)
        instances = sum(r.instances for r in self.results)
        wall = time.time() - self.t0
        evdir = os.environ.get("VERIF_EVIDENCE_DIR") or os.path.join(VERIF, "evidence")
        os.makedirs(evdir, exist_ok=True)
        rules = {}
        samples = []
        analysed = set()
        for r in self.results:
            rules[r.rule] = {
                "instances": r.instances,
                "findings": len(r.findings),
                "positive_control_fired": r.control_fired,
                "notes": r.notes[:20],
                **({"detail": r.detail} if r.detail else {}),
            }
            for s in r.samples[:3]:
                samples.append({"rule": r.rule, "instance": s})
            analysed.update(r.analysed)
        if not samples:
            samples = [{"rule": "none", "instance": "no instance analysed"}]
        nontrivial = sum(r.instances for r in self.results if r.instances > 0)
        coverage = {
            "explanation": self.explanation
            or "exact decision of the listed structural rules over the current source tree",
            "obligations": instances,
            "discharged": instances - len(all_findings) if instances >= len(all_findings) else 0,
            "evaluations": max(instances, 1),
            "distinct_nontrivial": max(nontrivial, 0),
            "rule": "one evaluation per rule instance (code site / table entry / "
            "configuration); every instance is distinct by construction (keyed by "
            "rule and construct) and non-trivial when its antecedent matched a real site",
            "samples": samples[:40],
            "rules": rules,
            "analysed_units": sorted(analysed)[:400],
            "analysed_unit_count": len(analysed),
            "checker_cmd": f"./check {self.prop} --tier {self.tier}",
            "trusted_base": [
                "CPython ast/re parsers",
                "clang 14 front end (only for C++ rules)",
                "rule tables in /verif/sa/rules",
            ],
            "exhaustive": True,
            "known_findings_matched": [f.key for f in listed],
            "analysis_errors": self.errors,
        }
        coverage.update(self.extra_coverage)
        ev = {
            "property_id": self.prop,
            "tier": self.tier,
            "seed": self.seed,
            "level": self.level,
            "coverage": coverage,
            "assumptions": self.assumptions,
            "wall_s": round(wall, 3),
            "violations": len(new),
        }
        evpath = os.path.join(evdir, f"{self.prop}.json")
        with open(evpath, "w", encoding="utf-8") as fh:
            json.dump(ev, fh, indent=1, sort_keys=True)
            fh.write("\n")
        for r in self.results:
            ctl = "" if r.control_fired is None else f" control={'fired' if r.control_fired else 'SILENT'}"
            print(f"  {r.rule}: instances={r.instances} findings={len(r.findings)}{ctl}")
            for n in r.notes[:6]:
                print(f"    note: {n}")
        for f in listed:
            print(f"KNOWN-FINDING: property={self.prop} {f.key} :: {known[(self.prop, f.key)]}")
        if self.errors:
            for e in self.errors:
                print(f"ANALYSIS-ERROR property={self.prop} {e}")
            if not new:
                return 2
        if new:
            rdir = os.environ.get("VERIF_REPLAY_DIR") or os.path.join(VERIF, "replay")
            os.makedirs(rdir, exist_ok=True)
            rpath = os.path.join(rdir, f"{self.prop}.{self.tier}.json")
            with open(rpath, "w", encoding="utf-8") as fh:
                json.dump([f.as_dict() for f in new], fh, indent=1)
            for f in new:
                print(f"FINDING {f}")
            print(f"VIOLATION property={self.prop} replay={rpath}")
            return 1
        print(f"OK property={self.prop} tier={self.tier} instances={instances} wall={wall:.1f}s")
        return 0
