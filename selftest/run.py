"""Runs the mutant catalogue against scratch copies of /repo (16 jobs).

Each mutant must make every property listed for it exit 1 (a VIOLATION naming a construct); every
BENIGN edit must leave all checks at exit 0.  Writes selftest/last_run.json.
usage: run.py [--only id1,id2] [--all-props]
"""
import argparse
import concurrent.futures as cf
import json
import os
import shutil
import subprocess
import sys
import tempfile

HERE = os.path.dirname(os.path.abspath(__file__))
VERIF = os.path.dirname(HERE)
sys.path.insert(0, HERE)
import catalogue  # noqa: E402

ALL = [f"C{n:02d}" for n in range(1, 21) if n != 8]


def _add_worktree(repo):
    """`git worktree add`, retried: concurrent git worktree commands contend for one lock."""
    import time
    for attempt in range(6):
        r_ = subprocess.run(["git", "-C", "/repo", "worktree", "add", "-q", "--detach", repo, "HEAD"], capture_output=True)
        if r_.returncode == 0:
            return
        time.sleep(1 + attempt)
    r_.check_returncode()


def run_one(entry, props, tier="quick"):
    mid, file, old, new = entry
    scratch = tempfile.mkdtemp(prefix="verif_selftest_", dir="/tmp")
    repo = os.path.join(scratch, "repo")
    try:
        _add_worktree(repo)
        path = os.path.join(repo, file)
        src = open(path).read()
        if old is None or src.count(old) != 1:
            return mid, {"stale": True, "count": 0 if old is None else src.count(old)}
        open(path, "w").write(src.replace(old, new))
        env = dict(os.environ, EMBOSS_REPO=repo, VERIF_EVIDENCE_DIR=os.path.join(scratch, "ev"),
                   VERIF_REPLAY_DIR=os.path.join(scratch, "rp"))
        out = {}
        for p in props:
            pr = subprocess.run([os.path.join(VERIF, "check"), p, "--tier", tier], env=env, cwd=VERIF,
                                capture_output=True, text=True)
            keys = []
            rp = os.path.join(scratch, "rp", f"{p}.{tier}.json")
            if os.path.exists(rp):
                keys = [f["key"] for f in json.load(open(rp))]
            errs = [l for l in pr.stdout.splitlines() if l.startswith("ANALYSIS-ERROR")]
            out[p] = {"rc": pr.returncode, "keys": keys[:5], "errors": errs[:2]}
        return mid, out
    finally:
        subprocess.run(["git", "-C", "/repo", "worktree", "remove", "--force", repo], capture_output=True)
        shutil.rmtree(scratch, ignore_errors=True)


def run_seed(seed_dir, props, tier="quick"):
    """Applies seeded/<id>/patch.diff in a scratch worktree and runs the listed properties' checks."""
    sid = os.path.basename(seed_dir)
    scratch = tempfile.mkdtemp(prefix="verif_selftest_", dir="/tmp")
    repo = os.path.join(scratch, "repo")
    try:
        _add_worktree(repo)
        r = subprocess.run(["git", "-C", repo, "apply", "--whitespace=nowarn", os.path.join(seed_dir, "patch.diff")],
                           capture_output=True, text=True)
        if r.returncode != 0:
            return sid, {"stale": True, "count": 0}
        env = dict(os.environ, EMBOSS_REPO=repo, VERIF_EVIDENCE_DIR=os.path.join(scratch, "ev"),
                   VERIF_REPLAY_DIR=os.path.join(scratch, "rp"))
        out = {}
        for p in props:
            pr = subprocess.run([os.path.join(VERIF, "check"), p, "--tier", tier], env=env, cwd=VERIF,
                                capture_output=True, text=True)
            keys = []
            rp = os.path.join(scratch, "rp", f"{p}.{tier}.json")
            if os.path.exists(rp):
                keys = [f["key"] for f in json.load(open(rp))]
            out[p] = {"rc": pr.returncode, "keys": keys[:5], "errors": []}
        return sid, out
    finally:
        subprocess.run(["git", "-C", "/repo", "worktree", "remove", "--force", repo], capture_output=True)
        shutil.rmtree(scratch, ignore_errors=True)


def main_seeds(jobs):
    """Every kept seeded change must still make the check of its property exit 1."""
    root = os.path.join(VERIF, "seeded")
    ok = True
    with cf.ThreadPoolExecutor(max_workers=jobs) as ex:
        futs = {}
        for d in sorted(os.listdir(root)):
            meta = os.path.join(root, d, "meta.json")
            if not os.path.exists(meta):
                continue
            prop = json.load(open(meta))["property"]
            futs[ex.submit(run_seed, os.path.join(root, d), [prop])] = (d, prop)
        for fu in cf.as_completed(futs):
            d, prop = futs[fu]
            sid, out = fu.result()
            if out.get("stale"):
                print(f"STALE   seed {d}: patch no longer applies to /repo HEAD")
                continue
            rc = out[prop]["rc"]
            print(f"{'CAUGHT ' if rc == 1 else 'MISSED '} seed {d}: {prop} rc={rc} {out[prop]['keys'][:2]}")
            ok = ok and rc == 1
    subprocess.run(["git", "-C", "/repo", "worktree", "prune"], capture_output=True)
    return 0 if ok else 1


def main():
    if "--seeds" in sys.argv:
        return main_seeds(12)
    ap = argparse.ArgumentParser()
    ap.add_argument("--only", default="")
    ap.add_argument("--all-props", action="store_true")
    ap.add_argument("--jobs", type=int, default=12)
    a = ap.parse_args()
    only = set(a.only.split(",")) if a.only else None
    jobs = []
    for mid, props, file, old, new, note in catalogue.MUTANTS:
        if only and mid not in only:
            continue
        jobs.append(((mid, file, old, new), ALL if a.all_props else props, props, note, "mutant"))
    for mid, file, old, new, note in catalogue.BENIGN:
        if only and mid not in only:
            continue
        jobs.append(((mid, file, old, new), ALL, [], note, "benign"))
    results = {}
    ok = True
    with cf.ThreadPoolExecutor(max_workers=a.jobs) as ex:
        futs = {ex.submit(run_one, j[0], j[1]): j for j in jobs}
        for fu in cf.as_completed(futs):
            entry, props, expect, note, kind = futs[fu]
            mid, out = fu.result()
            results[mid] = {"kind": kind, "expect": expect, "note": note, "result": out}
            if out.get("stale"):
                print(f"STALE   {mid}: target text occurs {out['count']} times")
                ok = False
                continue
            fired = sorted(p for p, r in out.items() if r["rc"] == 1)
            broken = sorted(p for p, r in out.items() if r["rc"] not in (0, 1))
            if kind == "mutant":
                missed = sorted(set(expect) - set(fired))
                status = "CAUGHT " if not missed else "MISSED "
                if missed:
                    ok = False
                print(f"{status} {mid}: fired={fired} missed={missed} broken={broken}  [{note}]")
            else:
                status = "SILENT " if not fired and not broken else "ALARM  "
                if fired or broken:
                    ok = False
                print(f"{status} {mid}: fired={fired} broken={broken}  [{note}]")
    subprocess.run(["git", "-C", "/repo", "worktree", "prune"], capture_output=True)
    with open(os.path.join(HERE, "last_run.json"), "w") as fh:
        json.dump(results, fh, indent=1, sort_keys=True)
    return 0 if ok else 1


if __name__ == "__main__":
    sys.exit(main())
