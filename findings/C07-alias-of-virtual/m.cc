#include "ra.emb.h"
#include <cstdio>
int main(){ unsigned char b[1]={5}; auto v=t::MakeFooView(b,1);
 printf("ok=%d a=%d\n",(int)v.Ok(),(int)v.a().Read());
#ifdef USE_B
 printf("b=%d\n",(int)v.b().Read());
#endif
 return 0; }
