#include "b.emb.h"
#include <cstdio>
int main(){ unsigned char b[2]={0,0}; auto v=t::MakeHolderView(b,2);
 printf("Bcd  CouldWriteValue(256)=%d TryToWrite(256)=%d read=%d\n",(int)v.x().CouldWriteValue(256),(int)v.x().TryToWrite(256),(int)v.x().Read());
 printf("UInt CouldWriteValue(256)=%d TryToWrite(256)=%d\n",(int)v.u().CouldWriteValue(256),(int)v.u().TryToWrite(256));
 return 0; }
