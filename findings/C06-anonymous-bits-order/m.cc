#include "anon.emb.h"
#include "runtime/cpp/emboss_text_util.h"
#include <cstdio>
#include <string>
int main(){ unsigned char b[1]={0x15}; auto v=t::MakeAnonView(b,1);
 std::string s=::emboss::WriteToString(v);
 unsigned char z[1]={0}; auto w=t::MakeAnonView(z,1); bool ok=::emboss::UpdateFromText(w,s);
 printf("ok=%d view.Ok=%d text=[%s] after=%02x\n",ok,(int)v.Ok(),s.c_str(),z[0]);
 return 0; }
