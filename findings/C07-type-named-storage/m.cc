#include "x.emb.h"
int main(){ unsigned char b[1]={1}; auto v=emboss_generated_code::MakeDevView(b,1); return v.Ok() ? 0 : 1; }
