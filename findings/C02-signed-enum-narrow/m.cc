#include "se.emb.h"
#include <cstdio>
int main(){ unsigned char b[3]={0xff,0xff,0xff}; auto v=t::MakeHolderView(b,1);
 printf("ok=%d s=%lld could_write(NEG)=%d\n",(int)v.Ok(),(long long)v.s().Read(), (int)v.s().CouldWriteValue(t::Sgn::NEG));
 unsigned char z[3]={0,0,0}; auto w=t::MakeHolderView(z,1); bool r=w.s().TryToWrite(t::Sgn::NEG); printf("write NEG ok=%d byte=%02x readback=%lld\n",(int)r,z[0],(long long)w.s().Read());
 return 0; }
