#include "arr.emb.h"
#include "runtime/cpp/emboss_text_util.h"
#include <cstdio>
#include <string>
int main(){ unsigned char b[4]={1,2,3,4}; auto v=t::MakeArrView(b,4);
 for(int ml=0; ml<2; ++ml){ auto o=::emboss::TextOutputOptions().Multiline(ml); std::string s=::emboss::WriteToString(v,o);
  unsigned char z[4]={0,0,0,0}; auto w=t::MakeArrView(z,4); bool ok=::emboss::UpdateFromText(w,s);
  printf("multiline=%d ok=%d text=[%s]\n",ml,ok,s.c_str()); }
 unsigned char z[4]={0}; auto w=t::MakeArrView(z,4); printf("no commas: %d\n", (int)::emboss::UpdateFromText(w,"{ xs: { 1 2 3 4 } }"));
 return 0; }
