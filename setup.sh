#!/bin/sh
# Offline setup: nothing to install (pure stdlib + clang already on the image); warm the table cache.
cd "$(dirname "$0")"
mkdir -p evidence .cache replay
if [ -x /venv/bin/python ]; then PY=/venv/bin/python; else PY=python3; fi
$PY -B -c "
import sys; sys.path.insert(0,'.')
from sa.pyfacts import Repo
from sa import grammar
grammar.CachedParser(Repo())
print('setup: cached_parser tables evaluated')
" || echo "setup: warm-up skipped"
exit 0
